#!/usr/bin/env python3
"""Tiny parser for the TLA+ values TLC writes into simulation behaviour files
(-simulate file=...): integers, strings, booleans, tuples << >>, records [a |-> v, ...],
functions (k :> v @@ k :> v), sets { }.  Converts them to JSON-able Python values
(functions with integer keys become lists ordered by key)."""
import re

_tok = re.compile(r'\s*(<<|>>|\|->|:>|@@|[\[\]\(\)\{\},]|"(?:[^"\\]|\\.)*"|-?\d+|[A-Za-z_][A-Za-z0-9_]*)')


def tokenize(s):
    pos, out = 0, []
    while pos < len(s):
        m = _tok.match(s, pos)
        if not m:
            if s[pos:].strip() == "":
                break
            raise ValueError("cannot tokenize at %r" % s[pos:pos + 30])
        out.append(m.group(1))
        pos = m.end()
    return out


def parse(s):
    toks = tokenize(s)
    v, i = _val(toks, 0)
    if i != len(toks):
        raise ValueError("trailing tokens %r" % toks[i:i + 5])
    return v


def _val(t, i):
    x = t[i]
    if x == "<<":
        i += 1
        out = []
        while t[i] != ">>":
            v, i = _val(t, i)
            out.append(v)
            if t[i] == ",":
                i += 1
        return out, i + 1
    if x == "{":
        i += 1
        out = []
        while t[i] != "}":
            v, i = _val(t, i)
            out.append(v)
            if t[i] == ",":
                i += 1
        return out, i + 1
    if x == "[":
        i += 1
        out = {}
        while t[i] != "]":
            k = t[i]
            assert t[i + 1] == "|->", t[i:i + 3]
            v, i = _val(t, i + 2)
            out[k] = v
            if t[i] == ",":
                i += 1
        return out, i + 1
    if x == "(":
        i += 1
        out = {}
        while t[i] != ")":
            k, i = _val(t, i)
            assert t[i] == ":>", t[i:i + 3]
            v, i = _val(t, i + 1)
            out[k] = v
            if t[i] == "@@":
                i += 1
        ks = sorted(out)
        return [out[k] for k in ks], i + 1
    if x.startswith('"'):
        return x[1:-1], i + 1
    if x in ("TRUE", "FALSE"):
        return x == "TRUE", i + 1
    if re.fullmatch(r"-?\d+", x):
        return int(x), i + 1
    return x, i + 1


def behaviour_states(path):
    """yields dicts var -> value for every STATE_n of a TLC simulation file"""
    txt = open(path).read()
    for blk in re.split(r"\nSTATE_\d+ ==\s*\n", txt)[1:]:
        blk = blk.split("\n\n")[0]
        st = {}
        for part in re.split(r"\n?/\\ ", "\n" + blk):
            part = part.strip()
            if not part:
                continue
            name, _, val = part.partition(" = ")
            st[name.strip()] = parse(val)
        yield st
