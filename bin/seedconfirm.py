#!/usr/bin/env python3
"""development helper: confirm a sub-agent's seeded change in a scratch worktree and store it under /verif/seeded.
usage: seedconfirm.py <prop> <x> <demo-dest-relative-path> <test command...>"""
import json, os, shutil, subprocess, sys
prop, x, dest = sys.argv[1:4]
cmd = " ".join(sys.argv[4:])
gen = os.environ.get("SEEDGEN", "1")
src = {"1": "/tmp/wt-%s/SEED/%s", "2": "/tmp/wt2-%s/SEED/%s", "3": "/tmp/wt3-%s/SEED/%s", "4": "/tmp/wt4-%s/SEED/%s"}[gen] % (prop, x)
wt = "/tmp/confirm-%s-%s" % (prop, x)
store = {"1": {"a": "a", "b": "b"}, "2": {"a": "c", "b": "d"}, "3": {"a": "e", "b": "f"}, "4": {"a": "g", "b": "h"}}[gen][x]
env = dict(os.environ, GOFLAGS="-mod=mod", GOPROXY="off", GOSUMDB="off", GOTOOLCHAIN="local")
def sh(c, cwd=wt):
    p = subprocess.run(c, shell=True, cwd=cwd, env=env, stdout=subprocess.PIPE, stderr=subprocess.STDOUT, text=True)
    return p.returncode, p.stdout
subprocess.run(["git", "-C", "/repo", "worktree", "remove", "--force", wt], stderr=subprocess.DEVNULL)
subprocess.run(["git", "-C", "/repo", "worktree", "add", "-q", "--detach", wt, "HEAD"], check=True)
res = {}
try:
    demo = [f for f in os.listdir(src) if f.startswith("demo")]
    demofile = os.path.join(src, demo[0])
    if os.path.isdir(demofile):
        shutil.copytree(demofile, os.path.join(wt, dest))
    else:
        os.makedirs(os.path.dirname(os.path.join(wt, dest)) or wt, exist_ok=True)
        shutil.copy(demofile, os.path.join(wt, dest))
    rc, out = sh(cmd)
    res["demo_without_patch"] = "PASS" if rc == 0 else "FAIL"
    res["demo_without_patch_tail"] = out[-300:]
    p = os.path.join(wt, dest)
    shutil.rmtree(p) if os.path.isdir(p) else os.remove(p)
    rc, out = sh("git apply --whitespace=nowarn %s/patch.diff" % src)
    res["applies"] = rc == 0
    rc, out = sh("go build ./... && go vet ./... 2>&1 | tail -3")
    res["builds"] = rc == 0
    rc, out = sh("go test -count=1 ./... 2>&1 | tail -6")
    res["suite_with_patch"] = "PASS" if rc == 0 and "FAIL" not in out else "FAIL"
    res["suite_tail"] = out[-300:]
    if os.path.isdir(demofile):
        shutil.copytree(demofile, os.path.join(wt, dest))
    else:
        shutil.copy(demofile, os.path.join(wt, dest))
    rc, out = sh(cmd)
    res["demo_with_patch"] = "PASS" if rc == 0 else "FAIL"
    res["demo_with_patch_tail"] = out[-400:]
finally:
    subprocess.run(["git", "-C", "/repo", "worktree", "remove", "--force", wt])
ok = res.get("demo_without_patch") == "PASS" and res.get("suite_with_patch") == "PASS" and res.get("demo_with_patch") == "FAIL" and res.get("applies")
res["confirmed"] = bool(ok)
print(json.dumps({k: v for k, v in res.items() if not k.endswith("_tail") or not ok}, indent=1))
if ok:
    d = "/verif/seeded/%s-%s" % (prop, store)
    os.makedirs(d, exist_ok=True)
    shutil.copy(os.path.join(src, "patch.diff"), d)
    shutil.copy(os.path.join(src, "notes.md"), d)
    if os.path.isdir(demofile):
        shutil.copytree(demofile, os.path.join(d, demo[0]), dirs_exist_ok=True)
    else:
        shutil.copy(demofile, d)
    meta = {"breaks_property": prop, "source": "independent sub-agent given only the property text and its own worktree",
            "demo_placement": dest, "demo_command": cmd,
            "confirmed_by_me": {"demo_passes_without_patch": True, "existing_suite_passes_with_patch": True, "demo_fails_with_patch": True},
            "needs_to_manifest": "see notes.md", "checks_run": {}}
    json.dump(meta, open(os.path.join(d, "meta.json"), "w"), indent=1)
