#!/usr/bin/env python3
"""Checks C13 (exclusive access) and C17 (concurrent reads): WhisperFile specification,
exhaustive TLC over interleavings, free-running real sessions / concurrent reads validated by TLC."""
import concurrent.futures as cf
import glob
import json
import os
import shutil
import subprocess

from vlib import *
import check_core
import check_cli
import sched_replay

REPLAY_KINDS = ("file-trace", "conc-trace", "sched")


def file_cfg(writers, readers, npages, maxsess, threads, invs, props=(), spec="Spec", quirks="{}"):
    s = ["SPECIFICATION " + spec, "CONSTANTS", "  Writers = {%s}" % ", ".join(writers), "  Readers = {%s}" % ", ".join(readers),
         "  NPages = %d" % npages, "  MaxSess = %d" % maxsess, "  Threads = {%s}" % ", ".join(threads), "  FQuirks = " + quirks]
    if invs:
        s.append("INVARIANTS " + " ".join(invs))
    if props:
        s.append("PROPERTIES " + " ".join(props))
    s.append("CHECK_DEADLOCK FALSE")
    return "\n".join(s) + "\n"


TRACE_FILE_CFG = """SPECIFICATION TSpec
CONSTANTS
  Writers = {"w1", "w2", "w3", "x1"}
  Readers = {"r1", "r2"}
  NPages = 3
  MaxSess = 1000
  Threads = {0, 1}
  FQuirks = {}
INVARIANTS Mutex LockLifetime NoLostUpdate
POSTCONDITION Accepted
CHECK_DEADLOCK FALSE
"""

C13_INV = ["Mutex", "LockLifetime", "ReaderUniform", "NoLostUpdate", "SyncedEqualsView", "CleanPagesFresh"]
C17_INV = ["ThreadsAgree", "ReaderUniform", "Mutex"]


def mc_file(wd, prop, tier):
    runs = []
    states = trans = 0
    if prop == "C13":
        plans = [(["w1", "w2"], ["r1"], 3, 2, ["t1"], C13_INV, ["DiskOnlyInFlush", "CrashLeavesDisk"], "Spec")]
        plans.append((["w1", "w2"], ["r1"], 2, 1, ["t1"], [], ["OpenReturns"], "FairSpec"))
        if tier == "thorough":
            plans.append((["w1", "w2", "w3"], ["r1"], 3, 2, ["t1"], C13_INV, ["DiskOnlyInFlush"], "Spec"))
            plans.append((["w1", "w2"], ["r1", "r2"], 4, 2, ["t1"], C13_INV, ["DiskOnlyInFlush"], "Spec"))
    else:
        plans = [(["w1"], ["r1"], 3, 2, ["t1", "t2"], C17_INV, [], "Spec")]
        if tier == "thorough":
            plans.append((["w1"], ["r1", "r2"], 3, 2, ["t1", "t2", "t3"], C17_INV, [], "Spec"))
            plans.append((["w1", "w2"], ["r1"], 4, 2, ["t1", "t2"], C17_INV, [], "Spec"))
    with cf.ThreadPoolExecutor(max_workers=2) as ex:
        futs = [(pl, ex.submit(run_tlc, wd, "WhisperFile", file_cfg(*pl[:5], pl[5], pl[6], pl[7]), "f%d" % i, max(4, NCPU // 2), 6000))
                for i, pl in enumerate(plans)]
        for pl, f in futs:
            res = f.result()
            require_clean_mc(res, "WhisperFile %s" % (pl[:5],))
            states += res["distinct"]
            trans += res["generated"]
            runs.append({"writers": pl[0], "readers": pl[1], "pages": pl[2], "sessions": pl[3], "threads": pl[4], "invariants": pl[5],
                         "properties": pl[6], "distinct_states": res["distinct"], "transitions": res["generated"], "wall_s": round(res["wall"], 1)})
    # the invariants are not vacuous: each quirk of the specification violates its property
    quirk_results = {}
    if tier == "thorough":
        for q, inv in (("NoFlock", "Mutex"), ("D6", "LockLifetime"), ("CloseFlushes", "NoLostUpdate"), ("CreateNoLock", "Mutex")):
            r = run_tlc(wd, "WhisperFile", file_cfg(["w1", "w2"], ["r1"], 3, 2, ["t1"], C13_INV, [], "Spec", '{"%s"}' % q), "q" + q, 4, 3000)
            quirk_results[q] = r["violated"]
            if not r["violated"] or inv not in r["violated"]:
                raise Broken("quirk %s does not violate %s in the specification: %s" % (q, inv, r["violated"]))
        # unbounded in the number of processes, pages and sessions: the safety invariants by proof (TLAPS)
        quirk_results["tlaps_obligations_proved(WhisperFile_proofs: Spec => [](NoLostUpdate /\\ Mutex /\\ LockLifetime /\\ ReaderUniform /\\ SyncedEqualsView /\\ CleanPagesFresh))"] = run_tlapm(wd, "WhisperFile_proofs", "wf")
    return states, trans, runs, quirk_results


def run_c13(tier, seed):
    v = Verdict("C13", tier, seed)
    wd = scratch("wv-C13-")
    try:
        binp = build_harness(wd)
        states, trans, runs, quirks = mc_file(wd, "C13", tier)
        # spec -> code: every transition of the labelled state graph replayed as a deterministic schedule
        sched_cov = sched_replay.run(wd, binp, "C13", tier, seed, v)
        rounds = {"quick": 32, "thorough": 800}[tier]
        nparts = 4 if tier == "quick" else NCPU // 2
        accepted = total = 0
        samples = list(sched_cov.pop("samples"))

        def part(i):
            tf = os.path.join(wd, "file%d.ndjson" % i)
            p = run_harness([binp, "drive-file", str(seed * 100 + i), str(max(8, rounds // nparts)), tf],
                               stdout=subprocess.PIPE, stderr=subprocess.STDOUT, text=True, timeout=3000)
            if p.returncode != 0:
                raise Broken("drive-file failed: " + p.stdout[-1500:])
            lines = open(tf).read().splitlines()
            ok, tot, rej = validate_traces(wd, "Trace_File", TRACE_FILE_CFG, tf, "tf%d" % i)
            bad = None
            if rej is not None:
                bad = {"line": json.loads(lines[rej - 1]), "prev": [json.loads(x) for x in lines[max(0, rej - 6):rej - 1]], "seed": seed * 100 + i}
            return ok, tot, bad, lines[1:3]
        with cf.ThreadPoolExecutor(max_workers=nparts) as ex:
            for ok, tot, bad, first in ex.map(part, range(nparts)):
                accepted += ok
                total += tot
                samples += [json.loads(x) for x in first][:1]
                if bad:
                    what = "sessions on one file are not serialised / lock outlives its handle: event %s not allowed after %s" % (
                        json.dumps(bad["line"]), json.dumps(bad["prev"][-2:]))
                    v.violation(what, {"kind": "file-trace", "seed": bad["seed"], "rejected": bad["line"], "before": bad["prev"]},
                                "openfail:" + str(bad["line"].get("what")) if bad["line"].get("ev") == "openfail" else None)
        cov = {"states": states, "transitions": trans, "traces_validated_against_impl": accepted + sched_cov["behaviours"],
               "samples": samples[:4] or ["none"],
               "exhaustive": True, "tlc_runs": runs, "session_events_validated": accepted, "session_events": total,
               "quirk_regressions": quirks, "schedules_replayed": sched_cov}
        return v.finish("model_checking", cov, [
            "TLC explores every interleaving of the listed processes/pages/sessions incl. crashes at any point; the liveness property OpenReturns is checked under weak fairness on a smaller configuration",
            "schedule replay: transition tours cover every transition of the labelled graph of MC_FileReplay (configuration in schedules_replayed.graph); processes are goroutines of one OS process stopped by the verif yield hook after os.OpenFile and after flock; page reads/flushes happen inside github.com/hnakamur/filebuffer (outside the repository, no yield point), so a Sync is one step and a crash while blocked in flock or in the middle of a Sync is not replayed; a process the specification keeps waiting is let into flock early and must not come through (negative test)",
            "real sessions run free (goroutines and separate processes, 3 writers + 2 readers with 2 fetch threads each, 3-page archive); the event log's order is the order of O_APPEND writes; opendone is logged after Open returned and closestart before Close is called, so overlap of logged intervals implies overlap of real handles (no false alarm), while a real overlap may go unobserved in a particular schedule",
            "failed Open/Create: nine malformed files and a Truncate failure under RLIMIT_FSIZE, each followed by a non-blocking flock probe of the path"])
    finally:
        shutil.rmtree(wd, ignore_errors=True)


def run_c17(tier, seed):
    v = Verdict("C17", tier, seed)
    wd = scratch("wv-C17-")
    try:
        binp = build_harness(wd, race=True, name="wverif_race")
        states, trans, runs, _ = mc_file(wd, "C17", tier)
        rounds = {"quick": 10, "thorough": 600}[tier]
        nparts = 4 if tier == "quick" else NCPU // 2
        acc = tot_lines = 0
        samples = []
        races = []

        def part(i):
            core, cli = os.path.join(wd, "cc%d.ndjson" % i), os.path.join(wd, "cl%d.ndjson" % i)
            logp = os.path.join(wd, "race%d" % i)
            env = dict(os.environ, GORACE="log_path=%s halt_on_error=0 exitcode=0" % logp)
            p = run_harness([binp, "drive-conc", str(seed * 100 + i), str(max(1, rounds // nparts)), core, cli],
                               stdout=subprocess.PIPE, stderr=subprocess.STDOUT, text=True, env=env, timeout=3000)
            if p.returncode != 0:
                raise Broken("drive-conc failed: " + p.stdout[-1500:])
            rl = []
            for f in glob.glob(logp + ".*"):
                txt = open(f, errors="replace").read()
                if "DATA RACE" in txt:
                    rl.append(txt[:3000])
            res = []
            for tf, mod, cfg, tag in ((core, "Trace_Core", check_core.TRACE_CFG % "C17", "c"), (cli, "Trace_CLI", check_cli.TRACE_CLI_CFG, "l")):
                lines = open(tf).read().splitlines()
                if not lines:
                    continue
                ok, tot, rej = validate_traces(wd, mod, cfg, tf, "cv%s%d" % (tag, i))
                res.append((ok, tot, json.loads(lines[rej - 1]) if rej else None, lines[1] if len(lines) > 1 else None))
            return rl, res
        with cf.ThreadPoolExecutor(max_workers=nparts) as ex:
            for i, (rl, res) in enumerate(ex.map(part, range(nparts))):
                for txt in rl:
                    races.append(txt)
                for ok, tot, bad, first in res:
                    acc += ok
                    tot_lines += tot
                    if first and len(samples) < 3:
                        samples.append(json.loads(first))
                    if bad:
                        v.violation("a concurrent read returned something else than the sequential read: " + json.dumps(bad)[:500],
                                    {"kind": "conc-trace", "seed": seed * 100 + i, "rejected": bad}, None)
        for txt in races[:3]:
            # attribute only races that involve whispertool code
            if "hnakamur/whispertool" in txt or "/repo/" in txt.replace(REPO, "/repo/"):
                v.violation("race detector: " + txt[:1200], {"kind": "conc-trace", "seed": seed, "race_report": txt}, None)
        cov = {"states": states, "transitions": trans, "traces_validated_against_impl": acc, "samples": samples or ["none"], "exhaustive": True,
               "tlc_runs": runs, "concurrent_results_validated": acc, "concurrent_results": tot_lines, "race_reports": len(races)}
        return v.finish("model_checking", cov, [
            "data-race freedom is a memory-model fact TLA+ does not decide: the race detector runs inside the model-driven executions as an additional observation channel (harness and server child are built with -race)",
            "8 goroutines x 6 fetches on one cold handle per round, sum over 6-15 files, 8 client goroutines x 5 requests (view, view-raw, sum, files) against one server; every result must equal the specification's sequential result",
            "interleavings are those the scheduler produces; TLC explores all interleavings of page reads of the fetch threads in the model"])
    finally:
        shutil.rmtree(wd, ignore_errors=True)


def replay(wd, prop, rp, path):
    """re-run the seeded free-running driver part and validate it again"""
    if rp["kind"] == "sched":
        return sched_replay.replay(wd, prop, rp, path)
    if rp["kind"] == "file-trace":
        binp = build_harness(wd)
        tf = os.path.join(wd, "f.ndjson")
        p = run_harness([binp, "drive-file", str(rp["seed"]), "4", tf], stdout=subprocess.PIPE, stderr=subprocess.STDOUT, text=True, timeout=HARNESS_TIMEOUT)
        if p.returncode != 0:
            raise Broken(p.stdout[-1000:])
        ok, tot, rej = validate_traces(wd, "Trace_File", TRACE_FILE_CFG, tf, "rp")
        if rej is None:
            log("replay: accepted on the current tree (%d events; schedules are not deterministic)" % tot)
            return 0
        log("VIOLATION property=%s replay=%s" % (prop, path))
        log("  rejected: " + open(tf).read().splitlines()[rej - 1][:400])
        return 1
    raise Broken("cannot replay " + rp["kind"])
