#!/usr/bin/env python3
"""Checks C08-C11, C16, C18 (and the CLI half of C05): WhisperCLI specification, exhaustive TLC
over prepared file trees x command arguments, spec->code replay through the real commands."""
import concurrent.futures as cf
import json
import os
import shutil
import subprocess

from vlib import *

REPLAY_KINDS = ("cli-tree", "cli-trace")

INV = {"C08": ["C08"], "C09": ["C09", "GlobDiffLaw"], "C10": ["C10"], "C11": ["C11"], "C18": ["C18"],
       "C16": ["C08", "C09", "C10", "C11", "C18"], "C12": ["C09", "C10", "C18"]}


def cli_cfg(layouts, methods, xffs, horizon, vals, maxprep, fullgrid=False, export="none", exportn=1,
            invs=(), cquirks="{}", initmode="free"):
    lines = ["SPECIFICATION Spec", "CONSTANTS", "  Quirks = {}", "  CQuirks = " + cquirks,
             "  Layouts <- " + layouts, "  Methods <- " + methods, "  Xffs <- " + xffs,
             "  T0 = 100", "  Horizon = %d" % horizon, "  Vals <- " + vals, "  MaxPrep = %d" % maxprep,
             '  Export = "%s"' % export, "  ExportN = %d" % exportn,
             "  FullGrid = %s" % ("TRUE" if fullgrid else "FALSE"), '  InitMode = "%s"' % initmode, "VIEW CView"]
    if invs:
        lines.append("INVARIANTS " + " ".join(invs))
    lines.append("CHECK_DEADLOCK FALSE")
    return "\n".join(lines) + "\n"


# (layouts, methods, xffs, horizon, vals, maxprep, fullgrid)
MC_PLAN = {
    "quick": [("CLayoutsQuick", "MethodSum", "XffZero", 1, "Vals1", 2, False),
              ("CLayoutsTwo", "MethodSum", "XffZero", 0, "Vals1", 1, False),      # layouts that differ only in a point count
              ("CLayouts3", "MethodsSL", "XffZero", 0, "Vals2", 1, False, "coarse-agree")],   # 3 levels; coarsest agrees, finest differs
    "thorough": [("CLayouts3", "MethodsSL", "XffZero", 1, "Vals2", 2, False, "coarse-agree"),
                 ("CLayoutsTwo", "MethodSum", "XffZero", 1, "Vals1", 2, False),("CLayoutsQuick", "MethodSum", "XffZero", 1, "Vals1", 3, False),
                 ("CLayoutsQuick", "MethodsSL", "XffHalf", 1, "Vals2", 2, True),
                 ("CLayouts3", "MethodSum", "XffZero", 1, "Vals1", 2, False),
                 ("CLayoutsMix", "MethodSum", "XffZero", 1, "Vals1", 2, False)],
}
# export: + rows per tree
EXPORT_PLAN = {
    "quick": [("CLayoutsQuick", "MethodSum", "XffZero", 1, "Vals1", 2, False, 3),
              ("CLayoutsTwo", "MethodSum", "XffZero", 0, "Vals1", 1, False, 4),
              ("CLayouts3", "MethodsSL", "XffZero", 0, "Vals2", 1, False, 6, "coarse-agree")],
    "thorough": [("CLayouts3", "MethodsSL", "XffZero", 1, "Vals2", 2, False, 4, "coarse-agree"),
                 ("CLayoutsTwo", "MethodSum", "XffZero", 1, "Vals1", 2, False, 3),("CLayoutsQuick", "MethodSum", "XffZero", 1, "Vals1", 3, False, 2),
                 ("CLayoutsQuick", "MethodsSL", "XffHalf", 1, "Vals2", 2, True, 4),
                 ("CLayouts3", "MethodSum", "XffZero", 1, "Vals1", 2, False, 3),
                 ("CLayoutsMix", "MethodSum", "XffZero", 1, "Vals1", 2, False, 3)],
}

ASSUME = [
    "TLC results are exhaustive only within the constants of the listed configurations (file trees prepared by <= MaxPrep named writes and clock ticks; argument grid of archive selections x windows x NaN mode)",
    "commands are executed in-process through cmd.*Command.Execute() with the clock injected by the verif build tag",
    "text output is read with a tolerant LTSV parser; only the fields the property names are compared",
    "model time t <-> real time B+t, three bases; values scaled by powers of two",
]


GEN_CFG = """SPECIFICATION GenSpec
CONSTANTS
  Quirks = {}
  CQuirks = {}
  Layouts = {}
  Methods = {}
  Xffs = {}
  T0 = 100
  Horizon = 0
  Vals = {}
  MaxPrep = 0
  Export = "%s"
  ExportN = 0
  FullGrid = FALSE
  InitMode = "free"
INVARIANTS %s
CHECK_DEADLOCK FALSE
"""


def run_c20(prop, tier, seed, v, wd):
    binp = build_harness(wd)
    res = run_tlc(wd, "MC_Gen", GEN_CFG % ("none", "C20Model GenCases"), "gen", 4, 3000)
    require_clean_mc(res, "MC_Gen")
    cases = 0
    for line in open(res["path"], errors="replace"):
        if "GEN_CASES" in line:
            cases = int(line.strip().rstrip(">").split(",")[-1])
    extra = cli_extra(prop, tier, seed, v, wd, binp)
    coverage = {"states": max(1, cases), "transitions": max(1, cases),
                "traces_validated_against_impl": extra.get("executions", 0),
                "samples": extra.get("samples", [])[:2] or ["no sample"],
                "design_level_generator_choices_enumerated": cases,
                "explanation": "states/transitions count the generator value assignments enumerated inside the invariant C20Model (layouts x methods x xFilesFactors x clock positions); the state graph itself has one state"}
    coverage.update(extra.get("coverage", {}))
    return v.finish("model_checking", coverage, ASSUME + ["generate is random: bound by trace validation only (every generated file is checked against the predicate GenerateOK by TLC)"])


def run_cli(prop, tier, seed):
    v = Verdict(prop, tier, seed)
    wd = scratch("wv-%s-" % prop)
    try:
        if prop == "C20":
            return run_c20(prop, tier, seed, v, wd)
        return _run_cli(prop, tier, seed, v, wd)
    finally:
        shutil.rmtree(wd, ignore_errors=True)


def _run_cli(prop, tier, seed, v, wd):
    binp = build_harness(wd)
    invs = INV[prop]
    runs = []
    states = transitions = 0
    samples = []
    cmds = {}
    trees = 0
    with cf.ThreadPoolExecutor(max_workers=4) as ex:
        futs = []
        mcs, exps = list(MC_PLAN[tier]), list(EXPORT_PLAN[tier])
        if prop == "C12" and tier == "thorough":
            # every row is executed twice (directory and URL, real HTTP round trips): three of the six exports (about an hour)
            mcs, exps = mcs[:3], exps[:3]
        if prop in ("C09", "C08"):
            # zero values and stored NaNs (instantiated as -0 / +0 and as NaNs with different payloads by the harness)
            mcs.append(("CLayoutsQuick", "MethodSum", "XffZero", 0, "Vals0", 2, False))
            exps.append(("CLayoutsQuick", "MethodSum", "XffZero", 0, "Vals0", 2, False, 3))
        if prop == "C18":
            # physical slot order matters for view-raw: rings of 3 slots with gaps (first and last slot written, middle empty)
            mcs.append(("CLayoutsTwo", "MethodSum", "XffZero", 1, "Vals1", 2, False))
            exps.append(("CLayoutsTwo", "MethodSum", "XffZero", 1, "Vals1", 2, False, 3))
        nw = max(2, NCPU // max(1, min(4, len(mcs) + len(exps))))
        for i, pl in enumerate(mcs):
            (lay, meth, xff, hor, vals, mp, fg), im = pl[:7], (pl[7] if len(pl) > 7 else "free")
            cfg = cli_cfg(lay, meth, xff, hor, vals, mp, fg, invs=invs, initmode=im)
            futs.append(("mc", pl, ex.submit(run_tlc, wd, "MC_CLI", cfg, "mc%d" % i, nw, 7000)))
        for i, pl in enumerate(exps):
            (lay, meth, xff, hor, vals, mp, fg, rows), im = pl[:8], (pl[8] if len(pl) > 8 else "free")
            cfg = cli_cfg(lay, meth, xff, hor, vals, mp, fg, export="trees", exportn=rows, invs=["ExportTree"], initmode=im)
            futs.append(("export", pl,
                         ex.submit(run_tlc, wd, "MC_CLI", cfg, "ex%d" % i, nw, 7000, None, None, None, ["-seed", str(seed)])))
        results = [(k, m, f.result()) for k, m, f in futs]
    for kind, meta, res in results:
        require_clean_mc(res, "%s %s" % (kind, meta))
        if kind == "mc":
            states += res["distinct"]
            transitions += res["generated"]
            runs.append({"config": meta, "distinct_states": res["distinct"], "transitions": res["generated"], "wall_s": round(res["wall"], 1)})
            continue
        outj = res["path"] + ".replay.json"
        p = run_harness([binp, "cli", prop, res["path"], outj], stdout=subprocess.PIPE, stderr=subprocess.STDOUT, text=True, timeout=HARNESS_TIMEOUT)
        if p.returncode != 0:
            raise Broken("cli replay failed: " + p.stdout[-2000:])
        r = json.load(open(outj))
        if r["trees"] == 0:
            raise Broken("TLC exported no trees for %s" % (meta,))
        trees += r["trees"]
        for k, n in r["commands"].items():
            cmds[k] = cmds.get(k, 0) + n
        runs.append({"export": meta, "trees": r["trees"], "commands": r["commands"], "worker_crashes": r["worker_crashes"]})
        samples += r["samples"][:1]
        for viol in r["violations"]:
            v.violation("%s: %s" % (viol["what"], viol["detail"][:600]),
                        {"kind": "cli-tree", "prop": prop, "tree": viol["line"]}, viol.get("signature") or None)
    extra = cli_extra(prop, tier, seed, v, wd, binp)
    coverage = {
        "states": states, "transitions": transitions,
        "traces_validated_against_impl": sum(cmds.values()) + extra.get("executions", 0),
        "samples": samples[:2] + extra.get("samples", [])[:2],
        "exhaustive": True, "tlc_runs": runs, "trees_materialised": trees, "real_command_executions": cmds,
        "invariants": invs,
    }
    coverage.update(extra.get("coverage", {}))
    return v.finish("model_checking", coverage, ASSUME)


def fault_grid(tier, seed, v, wd, binp):
    res = run_tlc(wd, "MC_Gen", GEN_CFG % ("faults", "C16Table ExportFaults"), "faults", 2, 3000)
    require_clean_mc(res, "fault table")
    outj = os.path.join(wd, "faults.json")
    rounds = {"quick": 6, "thorough": 60}[tier]
    p = run_harness([binp, "cli-faults", res["path"], str(seed), str(rounds), outj], stdout=subprocess.PIPE, stderr=subprocess.PIPE, text=True, timeout=HARNESS_TIMEOUT)
    if p.returncode != 0:
        err = p.stderr
        if "panic:" in err or "fatal error:" in err:
            last = [l for l in err.splitlines() if l.startswith("CASE ")]
            v.violation("command crashes the process: %s: %s" % (last[-1] if last else "?", err[err.find("panic:"):][:600]),
                        {"kind": "cli-faults", "seed": seed, "case": last[-1] if last else None}, "cmd-panic:faults")
            return {"executions": 0, "samples": [], "coverage": {}}
        raise Broken("cli-faults failed: " + err[-2000:])
    r = json.load(open(outj))
    for viol in r["violations"]:
        v.violation("%s: %s" % (viol["what"], viol["detail"][:600]), {"kind": "cli-faults", "seed": seed, "case": viol["line"]},
                    viol.get("signature") or None)
    return {"executions": r["executions"], "samples": r["samples"], "coverage": {"fault_grid_executions": r["executions"]}}


TRACE_CLI_CFG = """SPECIFICATION TSpec
CONSTANTS
  Quirks = {}
  CQuirks = {}
  Layouts = {}
  Methods = {}
  Xffs = {}
  T0 = 0
  Horizon = 0
  Vals = {}
  MaxPrep = 0
  Export = "none"
  ExportN = 0
  FullGrid = FALSE
  InitMode = "free"
POSTCONDITION Accepted
CHECK_DEADLOCK FALSE
"""

DRIVE_CASES = {"quick": 240, "thorough": 4000}


def drive_cases(binp, wd, prop, seed, first, count, tag):
    """run the seeded driver; a crash of the driver inside a command (panic in a goroutine
    started by the command) is attributed to the case in progress"""
    tf = os.path.join(wd, "cli_%s.ndjson" % tag)
    p = run_harness([binp, "drive-cli", prop, str(seed), str(first), str(count), tf],
                       stdout=subprocess.PIPE, stderr=subprocess.PIPE, text=True)
    crash = None
    if p.returncode != 0:
        err = p.stderr
        last = None
        for line in err.splitlines():
            if line.startswith("CASE "):
                last = int(line.split()[1])
        if ("panic:" in err or "fatal error:" in err) and "/repo/" in err.replace(REPO, "/repo") and last is not None:
            crash = (last, err[err.find("panic:"):][:1500])
        else:
            raise Broken("drive-cli failed: " + err[-2000:])
    return tf, crash


def cli_extra(prop, tier, seed, v, wd, binp):
    """code -> spec: seeded driver on large layouts / glob mode, validated by TLC (Trace_CLI)"""
    if prop == "C16":
        return fault_grid(tier, seed, v, wd, binp)
    if prop not in ("C08", "C09", "C10", "C11", "C18", "C20"):
        return {}
    total = DRIVE_CASES[tier]
    nparts = NCPU
    per = (total + nparts - 1) // nparts
    lines_ok = lines_total = 0
    samples = []

    def part(i):
        first = i * per
        done = 0
        out = []
        bad = []
        while done < per:
            tf, crash = drive_cases(binp, wd, prop, seed, first + done, per - done, "p%d_%d" % (i, done))
            lines = open(tf).read().splitlines() if os.path.exists(tf) else []
            out += lines
            if crash is None:
                break
            bad.append(("crash", crash))
            done = crash[0] - first + 1
        return out, bad

    with cf.ThreadPoolExecutor(max_workers=nparts) as ex:
        parts = list(ex.map(part, range(nparts)))
    for i, (lines, bad) in enumerate(parts):
        for _, (case, msg) in bad:
            v.violation("command crashes the process: " + msg[:500], {"kind": "cli-trace", "prop": prop, "seed": seed, "case": case},
                        "cmd-panic:" + prop)
    def validate(i):
        lines, _ = parts[i]
        res = []
        cur = lines
        okc = 0
        for attempt in range(5):
            if not cur:
                break
            tf = os.path.join(wd, "clit_%d_%d.ndjson" % (i, attempt))
            open(tf, "w").write("\n".join(cur) + "\n")
            ok, tot, rej = validate_traces(wd, "Trace_CLI", TRACE_CLI_CFG, tf, "ct%d_%d" % (i, attempt))
            if rej is None:
                okc += ok
                break
            okc += rej - 1
            res.append(json.loads(cur[rej - 1]))
            cur = cur[rej:]
        return okc, len(lines), res
    with cf.ThreadPoolExecutor(max_workers=nparts) as ex:
        for okc, tot, rejected in ex.map(validate, range(nparts)):
            lines_ok += okc
            lines_total += tot
            for line in rejected:
                v.violation("command outcome not allowed by the specification: %s" % json.dumps(line)[:500],
                            {"kind": "cli-trace", "prop": prop, "seed": seed, "case": line.get("case"), "line": line}, None)
    if parts and parts[0][0]:
        samples.append(json.loads(parts[0][0][0]))
    return {"executions": lines_ok, "samples": samples,
            "coverage": {"driver_cases": total, "driver_lines": lines_total, "driver_lines_accepted": lines_ok}}


def replay(wd, prop, rp, path):
    binp = build_harness(wd)
    if rp["kind"] == "cli-tree":
        inp = os.path.join(wd, "in.ndjson")
        open(inp, "w").write(json.dumps(rp["tree"]) + "\n")
        outj = os.path.join(wd, "out.json")
        p = run_harness([binp, "cli", prop, inp, outj], stdout=subprocess.PIPE, stderr=subprocess.STDOUT, text=True, timeout=HARNESS_TIMEOUT)
        if p.returncode != 0:
            raise Broken(p.stdout)
        r = json.load(open(outj))
        for viol in r["violations"]:
            log("VIOLATION property=%s replay=%s" % (prop, path))
            log("  %s: %s" % (viol["what"], viol["detail"][:600]))
            return 1
        log("replay: no violation on the current tree")
        return 0
    if rp["kind"] == "cli-trace":
        tf, crash = drive_cases(binp, wd, prop, rp["seed"], rp["case"], 1, "rp")
        if crash:
            log("VIOLATION property=%s replay=%s" % (prop, path))
            log("  " + crash[1][:600])
            return 1
        ok, tot, rej = validate_traces(wd, "Trace_CLI", TRACE_CLI_CFG, tf, "rp")
        if rej is None:
            log("replay: accepted on the current tree (%d lines)" % tot)
            return 0
        log("VIOLATION property=%s replay=%s" % (prop, path))
        log("  rejected: " + open(tf).read().splitlines()[rej - 1][:600])
        return 1
    raise Broken("cannot replay " + rp["kind"])
