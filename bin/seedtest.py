#!/usr/bin/env python3
"""development helper: apply a seeded change to /repo, run checks, ALWAYS undo it.
usage: seedtest.py <patch.diff> <prop>[,<prop>...] [tier]"""
import os, subprocess, sys, json, time
patch, props = sys.argv[1], sys.argv[2].split(",")
tier = sys.argv[3] if len(sys.argv) > 3 else "quick"
V = os.path.dirname(os.path.dirname(os.path.abspath(__file__)))
st = subprocess.run(["git", "-C", "/repo", "status", "--porcelain", "--untracked-files=no"], stdout=subprocess.PIPE, text=True).stdout
if st.strip():
    print("REFUSING: /repo has local modifications:\n" + st); sys.exit(3)
r = subprocess.run(["git", "-C", "/repo", "apply", "--whitespace=nowarn", os.path.abspath(patch)], stdout=subprocess.PIPE, stderr=subprocess.STDOUT, text=True)
if r.returncode != 0:
    print("PATCH DOES NOT APPLY:", r.stdout); sys.exit(3)
res = {}
try:
    for p in props:
        t0 = time.time()
        c = subprocess.run([os.path.join(V, "bin", "check"), p, tier], stdout=subprocess.PIPE, stderr=subprocess.STDOUT, text=True, cwd=V)
        lines = [l for l in c.stdout.splitlines() if l.startswith("VIOLATION") or l.startswith("KNOWN-FINDING") or l.startswith("BROKEN")]
        first = ""
        out = c.stdout.splitlines()
        for i, l in enumerate(out):
            if l.startswith("VIOLATION") and i + 1 < len(out):
                first = out[i + 1].strip()[:300]; break
        res[p] = {"rc": c.returncode, "n": len(lines), "first": first, "wall": round(time.time() - t0)}
        if c.returncode == 2:
            res[p]["broken"] = c.stdout[-800:]
finally:
    subprocess.run(["git", "-C", "/repo", "checkout", "--", "."])
    st = subprocess.run(["git", "-C", "/repo", "status", "--porcelain", "--untracked-files=no"], stdout=subprocess.PIPE, text=True).stdout
    if st.strip():
        print("WARNING: /repo not clean after undo:\n" + st)
print(json.dumps(res, indent=1))
