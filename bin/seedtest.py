#!/usr/bin/env python3
"""development helper: apply a seeded change to /repo, run checks, ALWAYS undo it.
usage: seedtest.py <patch.diff> <prop>[,<prop>...] [tier]"""
import os, subprocess, sys, json, time
patch, props = sys.argv[1], sys.argv[2].split(",")
tier = sys.argv[3] if len(sys.argv) > 3 else "quick"
V = os.path.dirname(os.path.dirname(os.path.abspath(__file__)))
# SEED_REPO: a scratch worktree of /repo for parallel measurement waves (the registered checks always use /repo itself)
REPO = os.environ.get("SEED_REPO", "/repo")
ENV = dict(os.environ, VERIF_REPO=REPO) if REPO != "/repo" else dict(os.environ)
st = subprocess.run(["git", "-C", REPO, "status", "--porcelain", "--untracked-files=no"], stdout=subprocess.PIPE, text=True).stdout
if st.strip():
    print("REFUSING: " + REPO + " has local modifications:\n" + st); sys.exit(3)
r = subprocess.run(["git", "-C", REPO, "apply", "--whitespace=nowarn", os.path.abspath(patch)], stdout=subprocess.PIPE, stderr=subprocess.STDOUT, text=True)
if r.returncode != 0:
    print("PATCH DOES NOT APPLY:", r.stdout); sys.exit(3)
res = {}
try:
    for p in props:
        t0 = time.time()
        c = subprocess.run([os.path.join(V, "bin", "check"), p, tier], stdout=subprocess.PIPE, stderr=subprocess.STDOUT, text=True, cwd=V, env=ENV)
        lines = [l for l in c.stdout.splitlines() if l.startswith("VIOLATION") or l.startswith("KNOWN-FINDING") or l.startswith("BROKEN")]
        first = ""
        out = c.stdout.splitlines()
        for i, l in enumerate(out):
            if l.startswith("VIOLATION") and i + 1 < len(out):
                first = out[i + 1].strip()[:300]; break
        res[p] = {"rc": c.returncode, "n": len(lines), "first": first, "wall": round(time.time() - t0)}
        if c.returncode == 2:
            res[p]["broken"] = c.stdout[-800:]
finally:
    subprocess.run(["git", "-C", REPO, "checkout", "--", "."])
    st = subprocess.run(["git", "-C", REPO, "status", "--porcelain", "--untracked-files=no"], stdout=subprocess.PIPE, text=True).stdout
    if st.strip():
        print("WARNING: /repo not clean after undo:\n" + st)
print(json.dumps(res, indent=1))
# record the outcome next to the seeded change
d = os.path.dirname(os.path.abspath(patch))
mp = os.path.join(d, "meta.json")
meta = json.load(open(mp)) if os.path.exists(mp) else {"breaks_property": props[0], "source": "reverted fix commit (see fix_commit_message.txt)" if "revert-" in d else "?"}
meta.setdefault("checks_run", {})
head = subprocess.run(["git", "-C", V, "log", "--format=%h", "-1"], stdout=subprocess.PIPE, text=True).stdout.strip()
for p, r in res.items():
    meta["checks_run"]["bin/check %s %s" % (p, tier)] = {"exit": r["rc"], "violation_lines": r["n"], "first": r["first"], "verif_commit": head,
                                                        "detected": r["rc"] == 1}
json.dump(meta, open(mp, "w"), indent=1)
