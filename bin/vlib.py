#!/usr/bin/env python3
"""Shared machinery of the /verif checks: building the Go harness against /repo's current
working tree, running TLC (exhaustive, export, trace validation), known findings, evidence."""
import hashlib
import json
import os
import re
import shutil
import subprocess
import sys
import tempfile
import time

VERIF = os.path.dirname(os.path.dirname(os.path.abspath(__file__)))
REPO = os.environ.get("VERIF_REPO", "/repo")
SPEC = os.path.join(VERIF, "spec")
HARNESS = os.path.join(VERIF, "harness")
OUT = os.path.join(VERIF, "out")
EVID = os.path.join(VERIF, "evidence")
TLA_CP = "/opt/veriftools/tla/tla2tools.jar:/opt/veriftools/tla/CommunityModules-deps.jar"
NCPU = os.cpu_count() or 4
HARNESS_TIMEOUT = 7200   # seconds; a harness that hangs is a broken check (exit 2), never a violation

GOENV = dict(os.environ, GOFLAGS="-mod=mod", GOPROXY="off", GOSUMDB="off", GOTOOLCHAIN="local",
             CGO_ENABLED=os.environ.get("CGO_ENABLED", "1"))


class Broken(Exception):
    """The check itself could not run (tooling failure): exit 2, never a violation."""


def log(*a):
    print(*a, flush=True)


def scratch(prefix="wv-"):
    """Scratch directory, removed by the caller.  The quick tier works in tmpfs; the thorough tier
    writes gigabytes of TLC output and state queues, which in tmpfs would count against RAM."""
    base = os.environ.get("VERIF_SCRATCH")
    if not base:
        thorough = "thorough" in sys.argv[2:] or os.environ.get("VERIF_TIER") == "thorough"
        base = "/dev/shm" if os.path.isdir("/dev/shm") and not thorough else tempfile.gettempdir()
    d = tempfile.mkdtemp(prefix=prefix, dir=base)
    # the harness' own scratch directories live inside it, so a killed worker leaves nothing behind
    os.environ["WVERIF_SCRATCH"] = d
    return d


def tier_of(argv_tier=None):
    t = argv_tier or os.environ.get("VERIF_TIER") or "quick"
    if t not in ("quick", "thorough"):
        t = "quick"
    return t


def seed_of():
    try:
        return int(os.environ.get("VERIF_SEED", "1"))
    except ValueError:
        return 1


def build_harness(workdir, tags="verif", race=False, name="wverif"):
    """Build the harness from /verif/harness against /repo's CURRENT working tree
    (replace directive -> /repo), hooks enabled through the build tag."""
    src = os.path.join(workdir, "hsrc")
    if not os.path.isdir(src):
        shutil.copytree(HARNESS, src)
        gomod = open(os.path.join(src, "go.mod")).read()
        gomod = gomod.replace("=> /repo", "=> " + REPO)
        open(os.path.join(src, "go.mod"), "w").write(gomod)
        shutil.copy(os.path.join(REPO, "go.sum"), os.path.join(src, "go.sum"))
    out = os.path.join(workdir, name)
    cmd = ["go", "build", "-tags", tags, "-o", out]
    if race:
        cmd.insert(2, "-race")
    cmd.append(".")
    p = subprocess.run(cmd, cwd=src, env=GOENV, stdout=subprocess.PIPE, stderr=subprocess.STDOUT, text=True)
    if p.returncode != 0:
        raise Broken("harness does not build against %s:\n%s" % (REPO, p.stdout[-3000:]))
    return out


HARNESS_MEM_GB = 10


def _limit_as():
    import resource
    lim = HARNESS_MEM_GB << 30
    resource.setrlimit(resource.RLIMIT_AS, (lim, lim))


def run_harness(cmd, timeout=HARNESS_TIMEOUT, env=None, limit=True, **kw):
    """Runs the Go harness with an address-space limit (not for -race builds, which reserve terabytes): code under
    test that sizes an allocation from a wrapped count must make the harness die at once with Go's own
    'out of memory' trace instead of eating the machine's RAM until the kernel kills something."""
    limit = limit and "race" not in os.path.basename(cmd[0])
    return subprocess.run(cmd, stdout=subprocess.PIPE, stderr=kw.get("stderr", subprocess.STDOUT), text=True,
                          timeout=timeout, env=env, cwd=kw.get("cwd"), preexec_fn=_limit_as if limit else None)


def oom_in_whispertool(out):
    """If the harness died of Go's 'out of memory' and the allocating goroutine's innermost non-runtime frame is whispertool
    code, returns that frame (the real code asked for more than HARNESS_MEM_GB GiB on inputs of a few kilobytes)."""
    i = out.find("fatal error: ")
    if i < 0 or not ("out of memory" in out[i:i + 200] or "cannot allocate memory" in out[i:i + 200]):
        return None
    g = out.find("\ngoroutine ", i)
    if g < 0:
        return None
    for line in out[g + 1:g + 8000].splitlines()[1:]:     # the frames of the goroutine that was allocating
        line = line.strip()
        if line.startswith("goroutine "):
            break
        if not line or line.startswith("/") or line.startswith("runtime."):
            continue
        m = re.match(r"(github\.com/hnakamur/whispertool.*)\(", line)
        return m.group(1) if m else None
    return None


_STATES_RE = re.compile(r"(\d+) states generated, (\d+) distinct states found")


def run_tlc(workdir, module, cfg_text, tag, workers=None, timeout=3000, env=None, stdout_path=None,
            simulate=None, extra=None, heap="5g"):
    """Run TLC on spec/<module>.tla with the given config text in a scratch copy of spec/.
    Returns dict(rc, generated, distinct, out(str tail), violated(str|None), path)."""
    if heap == "5g" and ("thorough" in sys.argv[2:] or os.environ.get("VERIF_TIER") == "thorough"):
        heap = "9g"     # the thorough configurations export states with long fetch grids (at most four TLC runs side by side)
    sdir = os.path.join(workdir, "spec-" + tag)
    if not os.path.isdir(sdir):
        shutil.copytree(SPEC, sdir)
    cfgp = os.path.join(sdir, tag + ".cfg")
    open(cfgp, "w").write(cfg_text)
    outp = stdout_path or os.path.join(workdir, tag + ".tlc.out")
    # explicit heap and off-heap bounds: several TLC instances run side by side and the JVM's
    # default (a quarter of RAM each, twice with the off-heap fingerprint set) invites the OOM killer
    cmd = ["java", "-Xss512m", "-Xmx" + heap, "-XX:MaxDirectMemorySize=" + heap, "-XX:+UseParallelGC", "-cp", TLA_CP, "tlc2.TLC",
           "-workers", str(workers or NCPU), "-noGenerateSpecTE", "-metadir", os.path.join(sdir, "meta-" + tag),
           "-config", cfgp]
    if simulate:
        cmd += ["-simulate", simulate]
    if extra:
        cmd += extra
    cmd.append(os.path.join(sdir, module + ".tla"))
    e = dict(os.environ)
    if env:
        e.update(env)
    t0 = time.time()
    with open(outp, "w") as fo:
        try:
            p = subprocess.run(cmd, cwd=sdir, env=e, stdout=fo, stderr=subprocess.STDOUT, timeout=timeout)
            rc = p.returncode
        except subprocess.TimeoutExpired:
            rc = -9
    res = {"rc": rc, "generated": 0, "distinct": 0, "violated": None, "path": outp, "wall": time.time() - t0,
           "depth": None, "error": None}
    # scan the (possibly huge) output without loading export lines
    with open(outp, errors="replace") as fi:
        for line in fi:
            if line.startswith('"{') or line.startswith("{"):
                continue
            m = _STATES_RE.search(line)
            if m:
                res["generated"], res["distinct"] = int(m.group(1)), int(m.group(2))
            if line.startswith("Error:"):
                if "is violated" in line or "Postcondition" in line:
                    res["violated"] = line.strip()
                elif res["error"] is None and "behavior up to" not in line:
                    res["error"] = line.strip()
            if "TRACE_DEPTH" in line:
                m2 = re.search(r"TRACE_DEPTH\", (-?\d+), (\d+)", line)
                if m2:
                    res["depth"] = (int(m2.group(1)), int(m2.group(2)))
    shutil.rmtree(os.path.join(sdir, "meta-" + tag), ignore_errors=True)
    return res


def run_tlapm(workdir, module, tag, timeout=1800):
    """Checks the TLAPS proofs of spec/<module>.tla in a scratch copy; returns the number of proved obligations.
    A proof that does not go through is a defect of the specification work: Broken, never a violation."""
    sdir = os.path.join(workdir, "proof-" + tag)
    if not os.path.isdir(sdir):
        shutil.copytree(SPEC, sdir)
    try:
        p = subprocess.run(["tlapm", "--threads", str(NCPU), module + ".tla"], cwd=sdir, stdout=subprocess.PIPE, stderr=subprocess.STDOUT,
                           text=True, timeout=timeout)
    except subprocess.TimeoutExpired:
        raise Broken("tlapm timed out on " + module)
    m = re.search(r"All (\d+) obligations? proved", p.stdout)
    shutil.rmtree(sdir, ignore_errors=True)
    if p.returncode != 0 or not m:
        raise Broken("TLAPS did not prove %s:\n%s" % (module, p.stdout[-1500:]))
    return int(m.group(1))


def require_clean_mc(res, what):
    """An exhaustive run of the specification itself must pass; anything else is a broken check."""
    if res["rc"] == -9:
        raise Broken("TLC timed out: " + what)
    if res["violated"] or res["error"] or res["rc"] != 0 or res["distinct"] == 0:
        tail = subprocess.run(["tail", "-n", "40", res["path"]], stdout=subprocess.PIPE, text=True).stdout
        raise Broken("TLC did not verify the specification (%s): %s %s\n%s" % (what, res["violated"], res["error"], tail))


def validate_traces(workdir, module, cfg_text, trace_file, tag):
    """code -> spec: returns (accepted_lines, total_lines, first_rejected_line or None)."""
    res = run_tlc(workdir, module, cfg_text, tag, workers=1, env={"TRACE_FILE": trace_file}, timeout=3000, heap="3g")
    if res["depth"] is None:
        tail = subprocess.run(["tail", "-n", "30", res["path"]], stdout=subprocess.PIPE, text=True).stdout
        raise Broken("trace validation did not finish (%s):\n%s" % (tag, tail))
    got, total = res["depth"]
    if got >= total:
        return total, total, None
    return got, total, got + 1


def split_traces(path, nparts, outdir, start_ev="create"):
    """Split an ndjson file of concatenated traces into nparts files at trace boundaries."""
    traces, cur = [], []
    with open(path) as f:
        for line in f:
            if ('"ev":"%s"' % start_ev) in line and cur:
                traces.append(cur)
                cur = []
            cur.append(line)
    if cur:
        traces.append(cur)
    parts = [[] for _ in range(max(1, min(nparts, len(traces))))]
    for i, t in enumerate(traces):
        parts[i % len(parts)].append(t)
    files = []
    for i, p in enumerate(parts):
        fp = os.path.join(outdir, "part%d.ndjson" % i)
        with open(fp, "w") as f:
            for t in p:
                f.writelines(t)
        files.append((fp, p))
    return files, len(traces)


# ---------------------------------------------------------------------------------------------
# known findings / verdicts / evidence
# ---------------------------------------------------------------------------------------------

def load_known():
    p = os.path.join(VERIF, "known_findings.json")
    if not os.path.exists(p):
        return []
    return json.load(open(p)).get("findings", [])


class Verdict:
    def __init__(self, prop, tier, seed):
        self.prop, self.tier, self.seed = prop, tier, seed
        self.violations = []      # (signature, replay dict)
        self.known_hits = {}
        self.t0 = time.time()
        self.known = [k for k in load_known() if k.get("property") == prop and k.get("status") == "known"]

    def violation(self, what, replay, signature=None):
        """Record a violation observed on the real code.  `signature` is matched against the
        committed known-findings file; only listed signatures are downgraded."""
        for k in self.known:
            if signature and k.get("signature") == signature:
                self.known_hits.setdefault(signature, k)
                return
        self.violations.append((what, replay, signature))

    def finish(self, level, coverage, assumptions):
        os.makedirs(EVID, exist_ok=True)
        os.makedirs(os.path.join(OUT, "replays"), exist_ok=True)
        for sig, k in self.known_hits.items():
            log("KNOWN-FINDING: property=%s %s" % (self.prop, k.get("what", sig)))
        paths = []
        for i, (what, replay, sig) in enumerate(self.violations[:20]):
            body = {"property": self.prop, "what": what, "signature": sig, "replay": replay}
            h = hashlib.sha1(json.dumps(body, sort_keys=True, default=str).encode()).hexdigest()[:12]
            rp = os.path.join(OUT, "replays", "%s-%s.json" % (self.prop, h))
            json.dump(body, open(rp, "w"), indent=1, default=str)
            paths.append(rp)
            log("VIOLATION property=%s replay=%s" % (self.prop, rp))
            log("  " + what[:400])
        ev = {
            "property_id": self.prop, "tier": self.tier, "seed": self.seed, "level": level,
            "coverage": coverage, "assumptions": assumptions, "wall_s": round(time.time() - self.t0, 2),
            "violations": len(self.violations),
        }
        json.dump(ev, open(os.path.join(EVID, self.prop + ".json"), "w"), indent=1, default=str)
        return 1 if self.violations else 0


def main_wrapper(fn):
    try:
        rc = fn()
    except subprocess.TimeoutExpired as t:
        log("BROKEN-CHECK: timed out: %s" % (t.cmd,))
        rc = 2
    except Broken as b:
        log("BROKEN-CHECK: " + str(b))
        rc = 2
    sys.exit(rc)
