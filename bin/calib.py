#!/usr/bin/env python3
"""development helper: measure TLC configs.  usage: calib.py prop 'lay,meth,xff,hor,ticks,mb,vals' ..."""
import sys, os, shutil, concurrent.futures as cf
sys.path.insert(0, os.path.dirname(os.path.abspath(__file__)))
from vlib import *
import check_core as cc
prop = sys.argv[1]
wd = scratch("calib-")
def one(i, spec):
    lay, meth, xff, hor, ticks, mb, vals = spec.split(",")
    invs, props = cc.INV[prop]
    cfg = cc.core_cfg(lay, meth, xff, int(hor), ticks, int(mb), vals=vals, withsync=(prop == "C05"), invs=invs, props=props)
    r = run_tlc(wd, "MC_Core", cfg, "c%d" % i, workers=int(os.environ.get("W", "4")), timeout=1500)
    return "%s %s: distinct=%d generated=%d wall=%.0fs rc=%s viol=%s err=%s" % (prop, spec, r["distinct"], r["generated"], r["wall"], r["rc"], r["violated"], r["error"])
with cf.ThreadPoolExecutor(max_workers=4) as ex:
    for line in ex.map(lambda a: one(*a), enumerate(sys.argv[2:])):
        print(line, flush=True)
shutil.rmtree(wd, ignore_errors=True)
