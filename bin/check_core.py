#!/usr/bin/env python3
"""Checks C01-C06: WhisperCore specification, exhaustive TLC, spec->code replay of exported
edges/states, code->spec validation of driver traces."""
import concurrent.futures as cf
import json
import os
import shutil
import subprocess

from vlib import *

# ------------------------------------------------------------------ TLC configs
INV = {
    "C01": (["RingInv", "C01"], []),
    "C02": ([], ["PC02Post", "PNoInvented", "PWriteFrame"]),
    "C03": ([], ["PC03Single", "PC03Batch", "PWriteFrame"]),
    "C04": (["C04"], []),
    "C05": ([], ["PC05"]),
    "C06": (["RingInv"], []),
}


def core_cfg(layouts, methods, xffs, horizon, ticks, maxbatch, vals="Vals12", valmode="free", withsync=False,
             export="none", sample=1, invs=(), props=(), quirks="{}", actcon=None, future=0, nanval=False):
    lines = ["SPECIFICATION Spec", "CONSTANTS", "  Quirks = " + quirks,
             "  Layouts <- " + layouts, "  Methods <- " + methods, "  Xffs <- " + xffs,
             "  T0 = 100", "  Horizon = %d" % horizon, "  Ticks <- " + ticks, "  Vals <- " + vals, "  ValUnit = 12",
             "  MaxBatch = %d" % maxbatch, "  FutureMax = %d" % future, "  NaNVal = %s" % ("TRUE" if nanval else "FALSE"), '  ValMode = "%s"' % valmode,
             "  WithSync = %s" % ("TRUE" if withsync else "FALSE"),
             '  Export = "%s"' % export, "  ExportSample = %d" % sample, "VIEW View"]
    if invs:
        lines.append("INVARIANTS " + " ".join(invs))
    if props:
        lines.append("PROPERTIES " + " ".join(props))
    if actcon:
        lines.append("ACTION_CONSTRAINT " + actcon)
    lines.append("CHECK_DEADLOCK FALSE")
    return "\n".join(lines) + "\n"


# (layouts, methods, xffs, horizon, ticks, maxbatch, vals)
MC_PLAN = {
    "quick": {
        "C01": [("MCLayoutsQuick", "MethodSum", "XffOne", 2, "Ticks12", 2, "Vals12"),
                ("MCLayoutsC", "MethodSum", "XffOne", 5, "Ticks12J", 2, "Vals1"),
                ("MCLayoutsC", "MethodSum", "XffOne", 3, "Ticks12", 2, "Vals1", 2)],      # batch points dated ahead of the clock
        "C02": [("MCLayoutsD", "MethodLast", "XffZero", 2, "Ticks12", 2, "Vals1"),
                ("MCLayoutsQuick", "MethodsAll", "XffSet", 2, "Ticks12", 2, "Vals1")],
        "C03": [("MCLayoutsQuick", "MethodSum", "XffOne", 2, "Ticks12", 2, "Vals12"),
                ("MCLayoutsQuick", "MethodSum", "XffOne", 1, "Ticks1", 2, "Vals1", 1)],
        "C04": [("MCLayoutsA", "MethodSum", "XffOne", 6, "Ticks1J", 1, "Vals1"),
                ("MCLayoutsC", "MethodSum", "XffOne", 5, "Ticks12J", 1, "Vals1")],
        "C05": [("MCLayoutsQuick", "MethodSum", "XffOne", 1, "Ticks1", 1, "Vals1"),
                ("MCLayoutsC", "MethodSum", "XffOne", 2, "Ticks12", 1, "Vals1")],
        "C06": [("MCLayoutsQuick", "MethodSum", "XffOne", 2, "Ticks12", 2, "Vals1"),
                ("MCLayoutsC", "MethodSum", "XffOne", 5, "Ticks12J", 2, "Vals1")],
    },
    "thorough": {
        "C01": [("MCLayoutsQuick", "MethodSum", "XffOne", 6, "Ticks12J", 2, "Vals12"),
                ("MCLayoutsC", "MethodSum", "XffOne", 8, "Ticks12J", 3, "Vals12"),
                ("MCLayoutsB", "MethodLast", "XffZero", 3, "Ticks12", 2, "Vals1"),
                ("MCLayoutsD", "MethodSum", "XffOne", 3, "Ticks12", 2, "Vals1"),
                ("MCLayouts3", "MethodSum", "XffOne", 2, "Ticks12", 2, "Vals1"),
                ("MCLayoutsC", "MethodSum", "XffOne", 6, "Ticks12J", 2, "Vals1", 3),
                ("MCLayoutsQuick", "MethodSum", "XffOne", 3, "Ticks12", 2, "Vals1", 2)],
        "C02": [("MCLayoutsD", "MethodsAll", "XffSet", 2, "Ticks12", 2, "Vals1"),
                ("MCLayoutsQuick", "MethodsAll", "XffSet", 2, "Ticks12", 2, "Vals1"),
                ("MCLayoutsQuick", "MethodsQuick", "XffOne", 2, "Ticks12", 2, "Vals12"),
                ("MCLayoutsQuick", "MethodsQuick", "XffSet", 3, "Ticks12", 2, "Vals1"),
                ("MCLayouts3", "MethodsAll", "XffSet", 1, "Ticks1", 2, "Vals1"),
                ("MCLayoutsB", "MethodsAll", "XffSet", 2, "Ticks12", 2, "Vals1"),
                ("MCLayoutsE", "MethodsQuick", "XffSet", 1, "Ticks1", 2, "Vals1"),
                ("MCLayoutsF", "MethodSum", "XffFifths", 1, "Ticks1", 2, "Vals1")],
        "C03": [("MCLayoutsQuick", "MethodSum", "XffOne", 3, "Ticks12", 3, "Vals1"),
                ("MCLayoutsQuick", "MethodSum", "XffOne", 3, "Ticks12", 2, "Vals12"),
                ("MCLayoutsB", "MethodSum", "XffOne", 2, "Ticks12", 2, "Vals1"),
                ("MCLayoutsD", "MethodSum", "XffOne", 3, "Ticks12", 2, "Vals1"),
                ("MCLayouts3", "MethodSum", "XffOne", 2, "Ticks12", 2, "Vals1")],
        "C04": [("MCLayoutsA", "MethodSum", "XffOne", 7, "Ticks12J", 1, "Vals1"),
                ("MCLayoutsB", "MethodSum", "XffOne", 8, "Ticks1J", 1, "Vals1"),
                ("MCLayoutsC", "MethodSum", "XffOne", 8, "Ticks12J", 1, "Vals1"),
                ("MCLayouts3", "MethodSum", "XffOne", 9, "Ticks1J", 1, "Vals1"),
                ("MCLayoutsD", "MethodSum", "XffOne", 9, "Ticks1J", 1, "Vals1")],
        "C05": [("MCLayoutsQuick", "MethodSum", "XffOne", 2, "Ticks12", 1, "Vals12"),
                ("MCLayoutsC", "MethodSum", "XffOne", 3, "Ticks12J", 2, "Vals1")],
        "C06": [("MCLayoutsQuick", "MethodSum", "XffOne", 6, "Ticks12J", 2, "Vals1"),
                ("MCLayoutsC", "MethodSum", "XffOne", 8, "Ticks12J", 3, "Vals1")],
    },
}

# export configs: (layouts, methods, xffs, horizon, ticks, maxbatch, vals, sample, export kind)
EXPORT_PLAN = {
    "quick": {
        "C01": [("MCLayoutsQuick", "MethodSum", "XffOne", 2, "Ticks12", 2, "Vals1", 8, "all"),
                ("MCLayoutsC", "MethodSum", "XffOne", 5, "Ticks12J", 2, "Vals1", 4, "all"),
                ("MCLayoutsC", "MethodSum", "XffOne", 3, "Ticks12", 2, "Vals1", 2, "all", 2)],
        "C02": [("MCLayoutsD", "MethodsAll", "XffZero", 2, "Ticks12", 2, "Vals1", 4, "edges"),
                ("MCLayoutsQuick", "MethodsAll", "XffOne", 2, "Ticks12", 2, "Vals1", 16, "edges"),
                ("MCLayoutsG", "MethodSum", "XffThirds", 1, "Ticks1", 2, "Vals1", 8, "edges"),   # known fraction exactly at a non-dyadic xFilesFactor
                ("MCLayoutsH", "MethodSum", "XffZero", 3, "Ticks12", 1, "Vals1", 1, "edges")],  # coarse interval starting at the retention edge
        "C03": [("MCLayoutsQuick", "MethodSum", "XffOne", 2, "Ticks12", 2, "Vals12", 24, "edges"),
                ("MCLayoutsD", "MethodSum", "XffOne", 2, "Ticks12", 2, "Vals1", 4, "edges")],
        "C04": [("MCLayoutsA", "MethodSum", "XffOne", 6, "Ticks1J", 1, "Vals1", 1, "states"),
                ("MCLayoutsC", "MethodSum", "XffOne", 5, "Ticks12J", 1, "Vals1", 1, "states")],
        "C06": [("MCLayoutsQuick", "MethodSum", "XffOne", 2, "Ticks12", 2, "Vals1", 8, "all"),
                ("MCLayoutsC", "MethodSum", "XffOne", 5, "Ticks12J", 2, "Vals1", 4, "all")],
    },
    "thorough": {
        "C01": [("MCLayoutsQuick", "MethodSum", "XffOne", 5, "Ticks12J", 2, "Vals1", 8, "all"),
                ("MCLayoutsC", "MethodSum", "XffOne", 8, "Ticks12J", 2, "Vals12", 4, "all"),
                ("MCLayoutsB", "MethodLast", "XffZero", 3, "Ticks12", 2, "Vals1", 16, "all"),
                ("MCLayoutsD", "MethodSum", "XffOne", 2, "Ticks12", 2, "Vals1", 16, "all")],
        "C02": [("MCLayoutsD", "MethodsAll", "XffSet", 2, "Ticks12", 2, "Vals1", 4, "edges"),
                ("MCLayoutsQuick", "MethodsAll", "XffSet", 2, "Ticks12", 2, "Vals1", 16, "edges"),
                ("MCLayouts3", "MethodsAll", "XffSet", 1, "Ticks1", 2, "Vals1", 16, "edges"),
                ("MCLayoutsB", "MethodsAll", "XffSet", 1, "Ticks1", 2, "Vals1", 16, "edges"),
                ("MCLayoutsF", "MethodsQuick", "XffFifths", 1, "Ticks1", 2, "Vals1", 8, "edges"),
                ("MCLayoutsH", "MethodsQuick", "XffSet", 3, "Ticks12", 1, "Vals1", 4, "edges")],
        "C03": [("MCLayoutsQuick", "MethodSum", "XffOne", 3, "Ticks12", 3, "Vals1", 64, "edges"),
                ("MCLayoutsB", "MethodSum", "XffOne", 2, "Ticks12", 2, "Vals1", 8, "edges"),
                ("MCLayoutsD", "MethodSum", "XffOne", 2, "Ticks12", 2, "Vals1", 8, "edges"),
                ("MCLayouts3", "MethodSum", "XffOne", 1, "Ticks1", 2, "Vals1", 16, "edges")],
        "C04": [("MCLayoutsA", "MethodSum", "XffOne", 7, "Ticks12J", 1, "Vals1", 1, "states"),
                ("MCLayoutsB", "MethodSum", "XffOne", 8, "Ticks1J", 1, "Vals1", 1, "states"),
                ("MCLayoutsC", "MethodSum", "XffOne", 8, "Ticks12J", 1, "Vals1", 1, "states"),
                ("MCLayouts3", "MethodSum", "XffOne", 9, "Ticks1J", 1, "Vals1", 1, "states"),
                ("MCLayoutsD", "MethodSum", "XffOne", 9, "Ticks1J", 1, "Vals1", 1, "states")],
        "C06": [("MCLayoutsQuick", "MethodSum", "XffOne", 5, "Ticks12J", 2, "Vals1", 8, "all"),
                ("MCLayoutsC", "MethodSum", "XffOne", 8, "Ticks12J", 2, "Vals1", 4, "all"),
                ("MCLayoutsD", "MethodSum", "XffOne", 2, "Ticks12", 2, "Vals1", 16, "all")],
    },
}

TRACES = {"quick": {"C01": 96, "C02": 96, "C03": 96, "C04": 64, "C05": 96, "C06": 64},
          "thorough": {"C01": 1600, "C02": 1600, "C03": 1600, "C04": 800, "C05": 1600, "C06": 1600}}

TRACE_CFG = 'SPECIFICATION Spec\nCONSTANTS\n  Quirks = {}\n  Prop = "%s"\nPOSTCONDITION Accepted\nCHECK_DEADLOCK FALSE\n'

ASSUME = {
    "common": [
        "TLC results are exhaustive only within the constants of the listed configurations",
        "model time t is mapped to real time B+t (B a multiple of every step; B in {0, 1.6e9, just below 2^31}); times >= 2^31 and now < maxRetention are out of scope",
        "model values are integers scaled by a power of two, so the float64 arithmetic of the code is exact",
        "behaviour listed in spec/UNSPECIFIED.md is not compared",
    ]
}


# behaviours (TLC -simulate) replayed on one live handle: (layouts, methods, xffs, horizon, ticks, maxbatch, vals, future, depth)
SIM_PLAN = {
    "C01": ("MCLayoutsA", "MethodSum", "XffOne", 10, "Ticks12J", 2, "Vals12", 1, 14),
    "C02": ("MCLayoutsD", "MethodsAll", "XffSet", 6, "Ticks12", 2, "Vals1", 0, 12),
    "C03": ("MCLayoutsA", "MethodSum", "XffOne", 8, "Ticks12J", 2, "Vals12", 1, 12),
    "C05": ("MCLayoutsA", "MethodSum", "XffOne", 8, "Ticks12", 2, "Vals1", 0, 16),
    "C06": ("MCLayoutsB", "MethodSum", "XffOne", 10, "Ticks12J", 2, "Vals1", 0, 14),
}
SIM_NUM = {"quick": 120, "thorough": 3000}


def simulate_behaviours(wd, prop, tier, seed):
    """TLC -simulate writes behaviours as TLA+ text; they are converted to ndjson 'step' lines"""
    import glob
    import tlaval
    lay, meth, xff, hor, ticks, mb, vals, fut, depth = SIM_PLAN[prop]
    cfg = core_cfg(lay, meth, xff, hor, ticks, mb, vals=vals, withsync=True, future=fut)
    bdir = os.path.join(wd, "beh")
    os.makedirs(bdir, exist_ok=True)
    n = SIM_NUM[tier]
    nw = 4 if tier == "quick" else NCPU
    per = max(1, n // nw)
    res = run_tlc(wd, "MC_Core", cfg, "sim", nw, 7000, None, None,
                  "file=%s,num=%d" % (os.path.join(bdir, "b"), per), ["-depth", str(depth), "-seed", str(seed)])
    if res["rc"] != 0 or res["error"] or res["violated"]:
        raise Broken("TLC simulation failed: %s %s" % (res["error"], res["violated"]))
    out = os.path.join(wd, "behaviours.ndjson")
    nb = 0
    with open(out, "w") as fo:
        for f in sorted(glob.glob(os.path.join(bdir, "b_*"))):
            lvl = 0
            for st in tlaval.behaviour_states(f):
                lvl += 1
                if st["op"].get("name") == "init":
                    continue
                fo.write(json.dumps({"kind": "step", "lvl": lvl - 1, "cfg": st["cfg"], "now": st["now"], "op": st["op"],
                                     "ring": st["ring"], "durable": st["durable"]}) + "\n")
            nb += 1
    shutil.rmtree(bdir, ignore_errors=True)
    return out, nb


def run_core(prop, tier, seed):
    v = Verdict(prop, tier, seed)
    wd = scratch("wv-%s-" % prop)
    try:
        return _run_core(prop, tier, seed, v, wd)
    finally:
        shutil.rmtree(wd, ignore_errors=True)


def _run_core(prop, tier, seed, v, wd):
    binp = build_harness(wd)
    invs, props = INV[prop]
    states = transitions = 0
    mc_runs = []
    cov_samples = []
    with cf.ThreadPoolExecutor(max_workers=4) as ex:
        futs = []
        # 1. exhaustive model checking of the property's invariants on the specification
        mcs = MC_PLAN[tier][prop]
        exps = EXPORT_PLAN[tier].get(prop, [])
        nw = max(2, NCPU // max(1, min(4, len(mcs) + len(exps))))
        for i, pl in enumerate(mcs):
            (lay, meth, xff, hor, ticks, mb, vals), fut = pl[:7], (pl[7] if len(pl) > 7 else 0)
            cfg = core_cfg(lay, meth, xff, hor, ticks, mb, vals=vals, withsync=(prop == "C05"), invs=invs, props=props, future=fut,
                           nanval=(prop == "C06"))
            futs.append(("mc", pl,
                         ex.submit(run_tlc, wd, "MC_Core", cfg, "mc%d" % i, nw, 7000)))
        # 2. export edges / states for spec -> code replay
        for i, pl in enumerate(exps):
            (lay, meth, xff, hor, ticks, mb, vals, sample, kind), fut = pl[:9], (pl[9] if len(pl) > 9 else 0)
            cfg = core_cfg(lay, meth, xff, hor, ticks, mb, vals=vals, export=kind, sample=sample, future=fut, nanval=(prop == "C06"),
                           invs=["ExportState"] if kind in ("states", "all") else [],
                           actcon="ExportEdge" if kind in ("edges", "all") else None)
            futs.append(("export", pl,
                         ex.submit(run_tlc, wd, "MC_Core", cfg, "ex%d" % i, nw, 7000,
                                   None, None, None, ["-seed", str(seed)])))
        # 3. driver traces (code -> spec)
        ntr = TRACES[tier][prop]
        trace_file = os.path.join(wd, "traces.ndjson")
        if ntr:
            if prop == "C06":   # files written by the reference implementation, read by both readers
                dcmd = [binp, "drive-gw", str(seed), str(ntr), trace_file]
            else:
                dcmd = [binp, "drive-core", prop, str(seed), "0", str(ntr), trace_file]
            p = run_harness(dcmd, stdout=subprocess.PIPE, stderr=subprocess.STDOUT, text=True, timeout=HARNESS_TIMEOUT)
            if p.returncode != 0:
                frame = oom_in_whispertool(p.stdout)
                if not frame:
                    raise Broken("driver failed: " + p.stdout[-2000:])
                v.violation("the library asks for more than %d GiB of memory during a driver history on files of a few kilobytes: allocation in %s"
                            % (HARNESS_MEM_GB, frame), {"kind": "core-oom", "prop": prop, "seed": seed, "frame": frame}, None)
                open(trace_file, "w").close()
                ntr = 0
        results = [(k, meta, f.result()) for k, meta, f in futs]

    replayed_edges = replayed_states = fetches = compared = 0
    for kind, meta, res in results:
        require_clean_mc(res, "%s %s" % (kind, meta))
        if kind == "mc":
            states += res["distinct"]
            transitions += res["generated"]
            mc_runs.append({"config": meta, "distinct_states": res["distinct"], "transitions": res["generated"],
                            "wall_s": round(res["wall"], 1)})
        else:
            outj = res["path"] + ".replay.json"
            p = run_harness([binp, "core", prop, res["path"], outj])
            if p.returncode != 0:
                if os.environ.get("VERIF_DEBUG_DUMP"):
                    open(os.environ["VERIF_DEBUG_DUMP"], "w").write(p.stdout)
                frame = oom_in_whispertool(p.stdout)
                if frame:
                    v.violation("the library asks for more than %d GiB of memory while transitions / fetches on files of a few kilobytes are replayed: allocation in %s"
                                % (HARNESS_MEM_GB, frame), {"kind": "core-oom", "prop": prop, "seed": seed, "config": list(meta), "frame": frame}, None)
                    continue
                raise Broken("replay failed: " + p.stdout[-2000:])
            r = json.load(open(outj))
            replayed_edges += r["edges"]
            replayed_states += r["states"]
            fetches += r["fetches"]
            compared += r["compared"]
            if r["lines"] == 0:
                raise Broken("TLC exported nothing for %s" % (meta,))
            mc_runs.append({"export": meta, "lines": r["lines"], "edges_replayed": r["edges"],
                            "states_replayed": r["states"], "fetches": r["fetches"]})
            cov_samples += r["samples"][:2]
            for viol in r["violations"]:
                v.violation("%s: %s" % (viol["what"], viol["detail"]),
                            {"kind": "core-line", "prop": prop, "line": viol["line"], "B": viol["B"], "scale": viol["scale"]},
                            viol.get("signature") or None)

    # validate traces with TLC (several processes in parallel)
    lines_ok = lines_total = traces_total = rejected = 0
    if ntr:
        tdir = os.path.join(wd, "tparts")
        os.makedirs(tdir)
        parts, traces_total = split_traces(trace_file, NCPU, tdir)
        with cf.ThreadPoolExecutor(max_workers=NCPU) as ex:
            futs = [ex.submit(_validate_part, wd, prop, fp, i) for i, (fp, _) in enumerate(parts)]
            for f in futs:
                ok, total, bad = f.result()
                lines_ok += ok
                lines_total += total
                for b in bad:
                    rejected += 1
                    v.violation("trace rejected by the specification at: %s" % json.dumps(b["line"])[:600],
                                {"kind": "core-trace", "prop": prop, "seed": seed, "trace": b["trace"],
                                 "rejected_line": b["line"], "previous_line": b["prev"]},
                                b.get("signature"))
        with open(trace_file) as f:
            for i, line in enumerate(f):
                if i in (1, 2):
                    cov_samples.append(json.loads(line))
    extra_cov = {}
    if prop in SIM_PLAN:
        bf, nb = simulate_behaviours(wd, prop, tier, seed)
        outj = os.path.join(wd, "paths.json")
        p = run_harness([binp, "core-path", prop, bf, outj])
        if p.returncode != 0 and oom_in_whispertool(p.stdout):
            v.violation("the library asks for more than %d GiB of memory while a behaviour is replayed on a live handle: allocation in %s"
                        % (HARNESS_MEM_GB, oom_in_whispertool(p.stdout)), {"kind": "core-oom", "prop": prop, "seed": seed}, None)
            p = None
        if p is not None and p.returncode != 0:
            raise Broken("core-path failed: " + p.stdout[-1500:])
        rp = json.load(open(outj)) if p is not None else {"behaviours": 1, "steps": 0, "compared": 0, "violations": [], "samples": []}
        if rp["behaviours"] == 0:
            raise Broken("no behaviour was replayed")
        for viol in rp["violations"]:
            v.violation("%s: %s" % (viol["what"], viol["detail"]),
                        {"kind": "core-path", "prop": prop, "seed": seed, "behaviour": viol["line"], "B": viol["B"], "scale": viol["scale"]}, None)
        extra_cov.update({"behaviours_replayed_on_a_live_handle": rp["behaviours"], "behaviour_steps": rp["steps"],
                          "behaviour_steps_compared": rp["compared"]})
        cov_samples += rp["samples"][:1]
        replayed_states += 0
        behaviours_ok = rp["behaviours"]
    else:
        behaviours_ok = 0
    if prop == "C05":
        # CLI part: a copy / sum-copy failing before its final Sync leaves an existing destination untouched
        outj = os.path.join(wd, "c05cli.json")
        p = run_harness([binp, "c05-cli", str(seed), str({"quick": 8, "thorough": 80}[tier]), outj],
                           stdout=subprocess.PIPE, stderr=subprocess.STDOUT, text=True)
        if p.returncode != 0:
            raise Broken("c05-cli failed: " + p.stdout[-1500:])
        r5 = json.load(open(outj))
        for viol in r5["violations"]:
            v.violation("%s: %s" % (viol["what"], viol["detail"]), {"kind": "core-c05cli", "seed": seed, "case": viol["line"]}, None)
        extra_cov["cli_failing_before_sync_executions"] = r5["executions"]
        cov_samples += r5.get("samples", [])[:1]
        # page level (WhisperFile): every transition of the labelled session graph replayed as a schedule of real sessions;
        # the file's bytes are read raw after every step (they change only in Sync; a dropped handle and Close leave them)
        import sched_replay
        sc = sched_replay.run(wd, binp, "C05", tier, seed, v)
        cov_samples += sc.pop("samples")[:1]
        extra_cov["schedules_replayed"] = sc
        behaviours_ok += sc["behaviours"]
    coverage = {
        "states": states, "transitions": transitions,
        "traces_validated_against_impl": replayed_edges + replayed_states + (traces_total - rejected if ntr else 0) + behaviours_ok,
        "samples": cov_samples[:6],
        "exhaustive": True,
        "tlc_runs": mc_runs,
        "edges_replayed_on_real_code": replayed_edges, "model_states_materialised_and_fetched": replayed_states,
        "fetches_compared": fetches, "edge_projections_compared": compared,
        "driver_traces": traces_total, "driver_trace_lines_accepted": lines_ok, "driver_trace_lines": lines_total,
        "invariants": invs, "action_properties": props,
    }
    coverage.update(extra_cov)
    return v.finish("model_checking", coverage, ASSUME["common"])


def _validate_part(wd, prop, fp, idx):
    """Validate one file of concatenated traces; on rejection report the line and continue with
    the remaining traces (bounded)."""
    bad = []
    ok_lines = total_lines = 0
    lines = open(fp).read().splitlines()
    total_lines = len(lines)
    cur = lines
    base_off = 0
    for attempt in range(6):
        tf = os.path.join(os.path.dirname(fp), "v%d_%d.ndjson" % (idx, attempt))
        open(tf, "w").write("\n".join(cur) + "\n")
        ok, total, rej = validate_traces(wd, "Trace_Core", TRACE_CFG % prop, tf, "tv%d_%d" % (idx, attempt))
        if rej is None:
            ok_lines += ok
            break
        line = json.loads(cur[rej - 1])
        prev = json.loads(cur[rej - 2]) if rej >= 2 else None
        # which trace?
        tid = None
        for j in range(rej - 1, -1, -1):
            d = json.loads(cur[j])
            if d.get("ev") == "create":
                tid = d.get("trace")
                break
        bad.append({"line": line, "prev": prev, "trace": tid})
        ok_lines += rej - 1
        # skip to the next trace
        nxt = None
        for j in range(rej, len(cur)):
            if '"ev":"create"' in cur[j]:
                nxt = j
                break
        if nxt is None:
            break
        cur = cur[nxt:]
    return ok_lines, total_lines, bad
