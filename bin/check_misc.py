#!/usr/bin/env python3
"""Checks C07 (layout validation), C19 (text syntax), C14 (binary codec), C15 (hostile bytes)."""
import concurrent.futures as cf
import json
import os
import re
import shutil
import subprocess

from vlib import *

REPLAY_KINDS = ("format-case", "text-case", "codec-case", "hostile-case")


def _cases(path, tag):
    for line in open(path, errors="replace"):
        if tag in line:
            return [int(x) for x in re.findall(r"-?\d+", line.split(tag)[1])]
    return []


# ------------------------------------------------------------------------------------------ C07
FORMAT_CFG = 'SPECIFICATION Spec\nCONSTANTS\n  Export = "cases"\n  Deep = %s\nINVARIANTS RuleLemmas EncodeLemma ExportCases ExportMeta CaseCount\nCHECK_DEADLOCK FALSE\n'


def run_c07(tier, seed):
    v = Verdict("C07", tier, seed)
    wd = scratch("wv-C07-")
    try:
        binp = build_harness(wd)
        res = run_tlc(wd, "WhisperFormat", FORMAT_CFG % ("TRUE" if tier == "thorough" else "FALSE"), "fmt", 2, 3000)
        require_clean_mc(res, "WhisperFormat")
        n = _cases(res["path"], "FORMAT_CASES")
        outj = os.path.join(wd, "fmt.json")
        p = run_harness([binp, "format", res["path"], outj], stdout=subprocess.PIPE, stderr=subprocess.STDOUT, text=True, timeout=HARNESS_TIMEOUT)
        if p.returncode != 0:
            raise Broken("format harness failed: " + p.stdout[-2000:])
        r = json.load(open(outj))
        for viol in r["violations"]:
            v.violation("%s: %s %s" % (viol["what"], viol["detail"], json.dumps(viol["line"])[:300]),
                        {"kind": "format-case", "case": viol["line"]}, viol.get("signature") or None)
        cov = {"states": n[0] if n else r["layouts"], "transitions": r["evaluations"],
               "traces_validated_against_impl": r["evaluations"], "samples": r["samples"] or ["none"], "exhaustive": True,
               "archive_lists_enumerated": n[0] if n else None, "valid_among_them": n[1] if len(n) > 1 else None,
               "entry_point_evaluations": r["evaluations"],
               "explanation": "states = archive lists enumerated by TLC inside the invariants of WhisperFormat.tla (the state graph has one state); transitions = entry-point evaluations on the real code"}
        return v.finish("model_checking", cov, [
            "archive lists of 1-3 archives over step,n in {0,1,2,3,4,6} plus 16 hand-placed 32-bit boundary lists; methods 0..9; ten xFilesFactor classes",
            "Open is given the header bytes only (Open does not compare the file length with the header)",
            "Create is executed for lists of at most 100000 points"])
    finally:
        shutil.rmtree(wd, ignore_errors=True)


# ------------------------------------------------------------------------------------------ C19
def text_cfg(maxlen, stride, export):
    return ('SPECIFICATION Spec\nCONSTANTS\n  Export = "%s"\n  MaxLen = %d\n  DayStride = %d\n'
            'INVARIANTS DurationRoundTrip ExactMeaning LayoutRoundTrip TimestampRoundTrip TimestampRange ExportStrings StrCount\n'
            'CHECK_DEADLOCK FALSE\n') % (export, maxlen, stride)


TRACE_TEXT_CFG = 'SPECIFICATION TSpec\nCONSTANTS\n  Export = "none"\n  MaxLen = 0\n  DayStride = 1\nPOSTCONDITION Accepted\nCHECK_DEADLOCK FALSE\n'


def run_c19(tier, seed):
    v = Verdict("C19", tier, seed)
    wd = scratch("wv-C19-")
    try:
        binp = build_harness(wd)
        maxlen, stride, ndrive = (3, 97, 300) if tier == "quick" else (4, 7, 4000)
        res = run_tlc(wd, "TextSyntax", text_cfg(maxlen, stride, "strings"), "txt", 2, 6000)
        require_clean_mc(res, "TextSyntax")
        n = _cases(res["path"], "TEXT_CASES")
        outj = os.path.join(wd, "str.json")
        p = run_harness([binp, "text-strings", res["path"], outj], stdout=subprocess.PIPE, stderr=subprocess.STDOUT, text=True, timeout=HARNESS_TIMEOUT)
        if p.returncode != 0:
            raise Broken("text-strings failed: " + p.stdout[-2000:])
        r = json.load(open(outj))
        for viol in r["violations"]:
            v.violation("%s: %s" % (viol["what"], viol["detail"]), {"kind": "text-case", "case": viol["line"]}, None)
        # driver traces validated by TLC
        nparts = NCPU if tier == "thorough" else 4
        per = ndrive // nparts

        def part(i):
            tf = os.path.join(wd, "tt%d.ndjson" % i)
            # the printed / parsed text must not depend on the process' local time zone
            tz = [None, "Asia/Tokyo", "America/New_York", "Pacific/Chatham"][i % 4]
            env = dict(os.environ, TZ=tz) if tz else None
            p = run_harness([binp, "drive-text", str(seed * 1000 + i), str(per), tf], env=env)
            if p.returncode != 0:
                raise Broken("drive-text failed: " + p.stdout[-1000:])
            lines = open(tf).read().splitlines()
            bad = []
            okc = 0
            cur = lines
            for attempt in range(5):
                if not cur:
                    break
                tfa = os.path.join(wd, "tt%d_%d.ndjson" % (i, attempt))
                open(tfa, "w").write("\n".join(cur) + "\n")
                ok, tot, rej = validate_traces(wd, "Trace_Text", TRACE_TEXT_CFG, tfa, "tt%d_%d" % (i, attempt))
                if rej is None:
                    okc += ok
                    break
                okc += rej - 1
                bad.append(json.loads(cur[rej - 1]))
                cur = cur[rej:]
            return okc, len(lines), bad, lines[:1]
        lines_ok = lines_total = 0
        samples = list(r["samples"])
        with cf.ThreadPoolExecutor(max_workers=nparts) as ex:
            for okc, tot, bad, first in ex.map(part, range(nparts)):
                lines_ok += okc
                lines_total += tot
                for b in bad:
                    b2 = dict(b)
                    if isinstance(b2.get("s"), list):
                        b2["s"] = "".join(b2["s"])
                    v.violation("printed/parsed text not allowed by the specification: " + json.dumps(b2)[:400],
                                {"kind": "text-case", "case": b2}, None)
        sweeps = []
        evaluations = r["evaluations"] + lines_total
        if tier == "thorough":
            for what in ("durations", "timestamps"):
                sj = os.path.join(wd, "sweep_%s.json" % what)
                p = run_harness([binp, "text-sweep", sj, what], stdout=subprocess.PIPE, stderr=subprocess.STDOUT, text=True, timeout=HARNESS_TIMEOUT)
                if p.returncode != 0:
                    raise Broken("text-sweep failed: " + p.stdout[-1000:])
                sr = json.load(open(sj))
                sweeps.append(sr)
                evaluations += sr["evaluations"]
                if sr["failures"]:
                    v.violation("parse(print(x)) # x for %d %s, first x=%d" % (sr["failures"], what, sr["first_failure"]),
                                {"kind": "text-case", "case": {"sweep": what, "x": sr["first_failure"]}}, None)
        cov = {"states": (n[0] + n[1] + n[2] + n[3]) if len(n) >= 4 else r["evaluations"], "transitions": evaluations,
               "traces_validated_against_impl": r["evaluations"] + lines_ok, "samples": samples[:4] or ["none"], "exhaustive": True,
               "strings_enumerated": n[0] if n else None, "timestamp_pairs_checked_in_TLC": n[1] if len(n) > 1 else None,
               "real_parse_of_enumerated_strings": r["evaluations"], "driver_lines": lines_total, "driver_lines_accepted": lines_ok,
               "full_domain_sweeps": sweeps,
               "explanation": "states = cases enumerated by TLC inside the law invariants of TextSyntax.tla (strings over a 14-letter alphabet up to MaxLen, day x second pairs, durations, archive lists); the state graph has one state"}
        return v.finish("model_checking", cov, [
            "strings with a redundant leading zero ('01s') and fractional seconds are left open (UNSPECIFIED.md)",
            "timestamps are (day, second-of-day) pairs in the specification because a 32-bit second count exceeds TLC's integers",
            "driver parts run with TZ unset, Asia/Tokyo, America/New_York and Pacific/Chatham (text must not depend on the local zone)",
            "thorough tier: the round-trip law is additionally swept over all 2^31 durations and 2^32 timestamps on the real code (no oracle needed for that law)"])
    finally:
        shutil.rmtree(wd, ignore_errors=True)


# ------------------------------------------------------------------------------------------ C14 / C15
CODEC_CFG = 'SPECIFICATION Spec\nCONSTANTS\n  Export = "codec"\n  MaxCount = %d\nINVARIANTS FramingLaws ConcatLaw HostileLaws BufBounded ExportFraming ExportHostile CodecCount\nPROPERTIES Terminates\n'


def run_codec(prop, tier, seed):
    v = Verdict(prop, tier, seed)
    wd = scratch("wv-%s-" % prop)
    try:
        binp = build_harness(wd)
        res = run_tlc(wd, "WhisperCodec", CODEC_CFG % (3 if tier == "quick" else 8), "codec", 2, 3000)
        require_clean_mc(res, "WhisperCodec")
        outj = os.path.join(wd, "out.json")
        if prop == "C14":
            p = run_harness([binp, "codec", res["path"], outj], stdout=subprocess.PIPE, stderr=subprocess.STDOUT, text=True, timeout=HARNESS_TIMEOUT)
            kind = "codec-case"
        else:
            nmut = {"quick": 600, "thorough": 100000}[tier]
            p = run_harness([binp, "hostile", res["path"], str(seed), str(nmut), outj], stdout=subprocess.PIPE, stderr=subprocess.STDOUT, text=True, timeout=HARNESS_TIMEOUT)
            kind = "hostile-case"
        if p.returncode != 0:
            raise Broken("%s harness failed: %s" % (prop, p.stdout[-2000:]))
        r = json.load(open(outj))
        for viol in r["violations"]:
            v.violation("%s: %s %s" % (viol["what"], viol["detail"][:500], json.dumps(viol["line"])[:300]),
                        {"kind": kind, "case": viol["line"], "seed": seed}, viol.get("signature") or None)
        if prop == "C14":
            cov = {"states": res["distinct"], "transitions": res["generated"], "traces_validated_against_impl": r["evaluations"],
                   "samples": r["samples"] or ["none"], "exhaustive": True, "frame_cases_x_value_sets": r["frame_cases"], "concatenation_pairs": r["pairs"],
                   "explanation": "TLC checks the framing laws for every shape x prefix length x trailing length and the termination of the retry loop (temporal property under fairness); every exported case is instantiated with 16 adversarial value sets (NaN payloads, signed zero, infinities, subnormals, 17-digit values; times 0, 1, 2^31-1, 2^31, 2^32-1) and run through AppendTo/TakeFrom"}
            return v.finish("model_checking", cov, ["values are opaque 8-byte words in the specification; coverage of float64 bit patterns is by instantiation of a finite token set",
                                                     "message shapes: headers of 1-3 (thorough: 1-8) archives, series and point lists of 0-3 (thorough: 0-8) elements, point, value, timestamp, duration"])
        cov = {"evaluations": r["evaluations"], "distinct_nontrivial": r["grid_cases"] + r["mutations"],
               "rule": "field-class grid of WhisperCodec.tla (decoder x count class x step class x range class x available-bytes class; 2400 cases, each distinct by construction) instantiated as bytes, the header cases also as files given to Open, plus seeded mutations of valid files (truncation, header bit flips, extreme header fields, body cut, random bytes, noise) each run through Open + every read/write entry point; a case is non-trivial when its bytes differ from a valid encoding",
               "samples": r["samples"] or ["none"], "grid_cases": r["grid_cases"], "mutations": r["mutations"], "child_crashes": r["child_crashes"],
               "states": res["distinct"], "transitions": res["generated"]}
        return v.finish("exploration", cov, ["the specification supplies the case structure, the allowed outcome set per class and the allocation bound (8 x input + 64 KiB per call); it cannot enumerate byte strings",
                                             "every case runs in a child process with RLIMIT_AS = 3 GiB; allocation is measured as the TotalAlloc delta of the call"])
    finally:
        shutil.rmtree(wd, ignore_errors=True)
