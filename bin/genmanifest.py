#!/usr/bin/env python3
"""Regenerates MANIFEST.json from the table below (development helper)."""
import json, os
V = os.path.dirname(os.path.dirname(os.path.abspath(__file__)))
props = [json.loads(l) for l in open(os.path.join(V, "properties.jsonl"))]
CLAIMED = json.load(open(os.path.join(V, "bin", "claims.json")))
hooks = json.load(open(os.path.join(V, "bin", "hooks.json")))
checks, na = [], []
for p in props:
    pid = p["id"]
    c = CLAIMED.get(pid)
    if not c or c.get("not_applicable"):
        na.append({"property_id": pid, "reason": (c or {}).get("not_applicable", "check not built yet in this round; see DESIGN.md section 8")})
        continue
    chk = {
        "property_id": pid,
        "quick_cmd": "bin/check %s quick" % pid,
        "thorough_cmd": "bin/check %s thorough" % pid,
        "evidence_file": "/verif/evidence/%s.json" % pid,
        "replay_cmd_template": "bin/check replay {path}",
        "engine": c["engine"],
        "level_claimed": {"category": c["level"], "text": c["text"], "design_ref": c["design_ref"]},
        "level_note": c["note"],
        "technique": c["technique"],
    }
    checks.append(chk)
m = {
    "version": 1,
    "setup_cmd": "bin/setup",
    "hooks": hooks,
    "engines": [
        {"name": "tla-core", "path": "spec/WhisperCore.tla", "serves_properties": ["C01", "C02", "C03", "C04", "C05", "C06"],
         "kind_free_text": "TLA+ specification of one Whisper file behind one handle (rings, write path, propagation, fetch, sync), checked exhaustively by TLC; bound to the code by replaying exported transitions/states into the real library and by validating driver traces (spec/Trace_Core.tla)"},
        {"name": "tla-cli", "path": "spec/WhisperCLI.tla", "serves_properties": ["C08", "C09", "C10", "C11", "C16", "C18"],
         "kind_free_text": "TLA+ specification of the commands as compositions of the library operators over a small tree of files; invariants quantified over command arguments; bound by executing the real commands on every exported tree and by validating driver lines (spec/Trace_CLI.tla)"},
        {"name": "tla-format", "path": "spec/WhisperFormat.tla, spec/TextSyntax.tla, spec/WhisperCodec.tla", "serves_properties": ["C07", "C14", "C15", "C19"],
         "kind_free_text": "TLA+ specifications of header validity / file layout, text syntax and the codec's framing protocol; laws checked by TLC on bounded domains; every enumerated case exported and executed against the real entry points, real printer output validated by TLC (spec/Trace_Text.tla)"},
        {"name": "tla-file", "path": "spec/WhisperFile.tla", "serves_properties": ["C13", "C17"],
         "kind_free_text": "TLA+ specification of one file shared by several processes: descriptor, flock, lazily filled page cache with write-back, Sync, Close, crash; all interleavings explored by TLC; bound by validating event logs of real concurrent sessions (spec/Trace_File.tla) and concurrent read results"},
    ],
    "checks": checks,
    "notes": "All checks: exit 0 held / exit 1 + VIOLATION line / exit 2 broken check. VERIF_SEED and VERIF_TIER honoured. Known findings and repaired defects: known_findings.json.",
    "not_applicable": na,
}
json.dump(m, open(os.path.join(V, "MANIFEST.json"), "w"), indent=1)
print("checks:", [c["property_id"] for c in checks], "not_applicable:", [n["property_id"] for n in na])
