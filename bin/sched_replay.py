#!/usr/bin/env python3
"""spec -> code for WhisperFile (C13, page level of C05): TLC's labelled state graph of MC_FileReplay is turned
into transition tours (every transition of the graph at least once) and, in the thorough tier, random
behaviours of a larger configuration; the harness' `sched` subcommand replays each behaviour as a deterministic
schedule of real sessions (goroutines gated by the yield hook inside Open/Create and between library calls)."""
import concurrent.futures as cf
import glob
import json
import os
import random
import shutil
import subprocess

from vlib import *
import tour

KEEP = ("disk", "lock", "pc", "cache", "val", "hdrOk", "commits", "exists", "mode", "dmg")

# (writers, readers, pages, sessions)
GRAPH_PLAN = {"quick": (["w1", "w2"], ["r1"], 2, 1), "thorough": (["w1", "w2"], ["r1"], 3, 2)}
SIM_PLAN = {"thorough": (["w1", "w2", "w3"], ["r1", "r2"], 3, 3, 1500, 80)}   # ..., behaviours, depth


def _cfg(writers, readers, npages, maxsess, export):
    s = ["SPECIFICATION RSpec", "CONSTANTS",
         "  Writers = {%s}" % ", ".join('"%s"' % w for w in writers), "  Readers = {%s}" % ", ".join('"%s"' % r for r in readers),
         "  NPages = %d" % npages, "  MaxSess = %d" % maxsess, '  Threads = {"t1"}', "  FQuirks = {}",
         "  RExport = %s" % ("TRUE" if export else "FALSE"),
         "INVARIANTS Mutex LockLifetime NoLostUpdate ReaderUniform", "CHECK_DEADLOCK FALSE"]
    if export:
        s += ["VIEW RView", "ACTION_CONSTRAINT RExportEdge"]
    return "\n".join(s) + "\n"


def _compact(st):
    return {k: st[k] for k in KEEP}


def _is_init(st):
    return all(v == "idle" for v in st["pc"].values()) and all(v == 0 for v in st["sess"].values()) and st["commits"] == 0


def _from_tla(st):
    """a state of a TLC simulation file (tlaval) in the shape of the exported JSON"""
    def fn(x):
        return {str(i): v for i, v in enumerate(x)} if isinstance(x, list) else x
    out = {k: st[k] for k in KEEP}
    out["disk"] = fn(st["disk"])
    out["cache"] = {p: fn(c) for p, c in st["cache"].items()}
    return out


def behaviours(wd, tier, seed):
    """-> (file, stats)"""
    w, r, npages, maxsess = GRAPH_PLAN[tier]
    res = run_tlc(wd, "MC_FileReplay", _cfg(w, r, npages, maxsess, True), "frx", min(8, NCPU), 6000)
    require_clean_mc(res, "MC_FileReplay graph export")
    out = os.path.join(wd, "sched_beh.ndjson")
    st = tour.build(res["path"], out, 400, is_init=_is_init, compact=_compact, lookahead=6, seed=seed)
    if st["untaken"] != 0 or st["behaviours"] == 0:
        raise Broken("transition tour incomplete: %s" % st)
    os.remove(res["path"])
    st.update({"distinct_states": res["distinct"], "transitions": res["generated"], "writers": w, "readers": r, "pages": npages,
               "sessions": maxsess})
    return out, npages, st


def simulated(wd, tier, seed):
    if tier not in SIM_PLAN:
        return None, 0, {}
    import tlaval
    w, r, npages, maxsess, num, depth = SIM_PLAN[tier]
    bdir = os.path.join(wd, "fsim")
    os.makedirs(bdir, exist_ok=True)
    nw = NCPU
    res = run_tlc(wd, "MC_FileReplay", _cfg(w, r, npages, maxsess, False), "frs", nw, 6000, None, None,
                  "file=%s,num=%d" % (os.path.join(bdir, "b"), max(1, num // nw)), ["-depth", str(depth), "-seed", str(seed)])
    if res["rc"] != 0 or res["error"] or res["violated"]:
        raise Broken("TLC simulation of MC_FileReplay failed: %s %s" % (res["error"], res["violated"]))
    out = os.path.join(wd, "sched_sim.ndjson")
    n = steps = 0
    with open(out, "w") as fo:
        for f in sorted(glob.glob(os.path.join(bdir, "b_*"))):
            sts = list(tlaval.behaviour_states(f))
            if len(sts) < 2:
                continue
            beh = {"id": 100000 + n, "init": _from_tla(sts[0]), "steps": [{"act": s["act"], "post": _from_tla(s)} for s in sts[1:]]}
            fo.write(json.dumps(beh) + "\n")
            n += 1
            steps += len(sts) - 1
    shutil.rmtree(bdir, ignore_errors=True)
    return out, npages, {"simulated_behaviours": n, "simulated_steps": steps, "writers": w, "readers": r, "pages": npages, "sessions": maxsess}


def _replay_file(wd, binp, prop, npages, path, tag, nparts):
    lines = open(path).read().splitlines()
    parts = [lines[i::nparts] for i in range(nparts)]
    parts = [p for p in parts if p]

    def one(i):
        pf = os.path.join(wd, "%s_part%d.ndjson" % (tag, i))
        open(pf, "w").write("\n".join(parts[i]) + "\n")
        rf = os.path.join(wd, "%s_res%d.json" % (tag, i))
        p = run_harness([binp, "sched", prop, str(npages), pf, rf], stdout=subprocess.PIPE, stderr=subprocess.STDOUT, text=True,
                           timeout=HARNESS_TIMEOUT)
        if p.returncode != 0:
            raise Broken("sched failed: " + p.stdout[-1500:])
        os.remove(pf)
        return json.load(open(rf))
    with cf.ThreadPoolExecutor(max_workers=len(parts)) as ex:
        return list(ex.map(one, range(len(parts))))


def run(wd, binp, prop, tier, seed, v):
    """replays and records violations into v; returns a coverage dict"""
    cov = {"behaviours": 0, "steps": 0, "compared": 0, "negative_lock_tests": 0, "skipped": 0, "by_action": {}}
    samples = []
    nparts = min(NCPU, 8 if tier == "quick" else NCPU)
    bf, npages, gst = behaviours(wd, tier, seed)
    todo = [(bf, npages, "tour")]
    sf, snp, sst = simulated(wd, tier, seed)
    if sf:
        todo.append((sf, snp, "sim"))
    for path, npg, tag in todo:
        for r in _replay_file(wd, binp, prop, npg, path, tag, nparts):
            for k in ("behaviours", "steps", "compared", "negative_lock_tests", "skipped"):
                cov[k] += r[k]
            for a, n in r["by_action"].items():
                cov["by_action"][a] = cov["by_action"].get(a, 0) + n
            samples += r["samples"][:1]
            for viol in r["violations"]:
                v.violation("%s: %s (step %d of a replayed schedule)" % (viol["what"], viol["detail"], viol["step"]),
                            {"kind": "sched", "prop": prop, "npages": npg, "behaviour": viol["behaviour"], "step": viol["step"]}, None)
        os.remove(path)
    if cov["behaviours"] == 0 or cov["steps"] == 0:
        raise Broken("no schedule was replayed")
    never = [a for a in ("OpenFd", "CreateFd", "Acquire", "ReadHeader", "InitFile", "ReadPage", "Observe", "WLoad", "WStamp", "SyncDone",
                         "Close", "Drop", "CloseAgain", "FlipHeader") if cov["by_action"].get(a, 0) == 0]
    if never and not v.violations:
        raise Broken("actions never replayed: %s" % never)
    cov["graph"] = gst
    if sst:
        cov["simulation"] = sst
    cov["samples"] = samples[:2]
    return cov


def replay(wd, prop, rp, path):
    binp = build_harness(wd)
    pf = os.path.join(wd, "one.ndjson")
    open(pf, "w").write(json.dumps(rp["behaviour"]) + "\n")
    rf = os.path.join(wd, "one.json")
    p = run_harness([binp, "sched", prop, str(rp["npages"]), pf, rf], stdout=subprocess.PIPE, stderr=subprocess.STDOUT, text=True,
                       timeout=HARNESS_TIMEOUT)
    if p.returncode != 0:
        raise Broken("sched failed: " + p.stdout[-1500:])
    r = json.load(open(rf))
    for viol in r["violations"]:
        log("VIOLATION property=%s replay=%s" % (prop, path))
        log("  %s: %s" % (viol["what"], viol["detail"]))
        return 1
    log("replay: the schedule is followed by the current tree (%d steps)" % r["steps"])
    return 0
