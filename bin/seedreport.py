#!/usr/bin/env python3
"""prints the markdown table of DESIGN.md section 11 from seeded/*/meta.json"""
import glob, json, os
V = os.path.dirname(os.path.dirname(os.path.abspath(__file__)))
rows = []
for d in sorted(glob.glob(os.path.join(V, "seeded", "*"))):
    mp = os.path.join(d, "meta.json")
    if not os.path.exists(mp):
        continue
    m = json.load(open(mp))
    for cmd, r in sorted(m.get("checks_run", {}).items()):
        rows.append("| `%s` | %s | `%s` | %s | %s |" % (os.path.basename(d), m.get("breaks_property"), cmd,
                    "**detected**" if r.get("detected") else ("broken check" if r.get("exit") == 2 else "missed"),
                    (r.get("first") or "").replace("|", "\\|")[:140]))
print("| seeded change | property | check run | result | first violation line |\n|---|---|---|---|---|")
print("\n".join(rows))
