#!/usr/bin/env python3
"""Transition tours: turns the labelled state graph TLC exported (one 'redge' line per transition:
pre-state, action label, post-state) into behaviours - paths from an initial state - that together
take EVERY transition at least once.  Greedy: follow an untaken edge if the current state has one,
otherwise walk the shortest path to a state that has one, otherwise start a new behaviour.

usage (module): tour.build(edge_file, out_file, max_len) -> dict(states, edges, behaviours, steps)"""
import collections
import json
import random


def _key(st):
    return json.dumps(st, sort_keys=True, separators=(",", ":"))


def load_edges(path, kind="redge"):
    states, edges, out = {}, [], collections.defaultdict(list)
    seen = set()
    with open(path, errors="replace") as f:
        for line in f:
            if not line.startswith('"{'):
                continue
            rec = json.loads(json.loads(line))
            if rec.get("kind") != kind:
                continue
            a, b = _key(rec["pre"]), _key(rec["post"])
            sig = (a, json.dumps(rec["act"], sort_keys=True), b)
            if sig in seen:
                continue
            seen.add(sig)
            states.setdefault(a, rec["pre"])
            states.setdefault(b, rec["post"])
            out[a].append(len(edges))
            edges.append((a, rec["act"], b))
    return states, edges, out


def build(edge_file, out_file, max_len=400, is_init=None, compact=None, lookahead=4, seed=1):
    """Linear-time variant of the greedy tour: shortest paths from the initial states are computed once (BFS tree);
    a behaviour = tree path to the source of an untaken edge, then untaken edges for as long as one is within
    `lookahead` steps of the current state."""
    states, edges, out = load_edges(edge_file)
    has_in = set(b for _, _, b in edges)
    inits = [s for s in states if (is_init(states[s]) if is_init else s not in has_in)]
    if not inits:
        raise ValueError("no initial state found")
    comp = compact or (lambda st: st)
    # BFS tree from the initial states
    parent = {s: None for s in inits}
    root = {s: s for s in inits}
    dq = collections.deque(inits)
    order = []
    while dq:
        s = dq.popleft()
        order.append(s)
        for e in out.get(s, ()):
            t = edges[e][2]
            if t not in parent:
                parent[t] = e
                root[t] = root[s]
                dq.append(t)
    todo = set(e for e in range(len(edges)) if edges[e][0] in parent)
    unreachable = len(edges) - len(todo)
    untaken_out = {s: [e for e in out.get(s, ()) if e in todo] for s in states}
    rnd = random.Random(seed)     # different seeds take the transitions in different orders / contexts
    for lst in untaken_out.values():
        rnd.shuffle(lst)

    def take(e):
        todo.discard(e)

    def next_untaken(s):
        lst = untaken_out.get(s)
        while lst:
            e = lst[-1]
            if e in todo:
                return e
            lst.pop()
        return None

    def near(src):
        """edge path (<= lookahead) from src to a state with an untaken edge"""
        prev = {src: None}
        frontier = [src]
        for _ in range(lookahead):
            nf = []
            for s in frontier:
                for e in out.get(s, ()):
                    t = edges[e][2]
                    if t in prev:
                        continue
                    prev[t] = e
                    if next_untaken(t) is not None:
                        path = []
                        while prev[t] is not None:
                            path.append(prev[t])
                            t = edges[prev[t]][0]
                        return list(reversed(path))
                    nf.append(t)
            frontier = nf
        return None

    nbeh = steps = 0
    with open(out_file, "w") as fo:
        # deepest sources first: their tree paths take many shallower untaken edges on the way
        for s in order:   # shallow sources first: the greedy extension then runs deep
            while next_untaken(s) is not None:
                path = []
                t = s
                while parent[t] is not None:
                    path.append(parent[t])
                    t = edges[parent[t]][0]
                path.reverse()
                beh = []
                for e in path:
                    take(e)
                    beh.append(e)
                cur = s
                while len(beh) < max_len:
                    e = next_untaken(cur)
                    if e is None:
                        p2 = near(cur)
                        if not p2:
                            break
                        for e2 in p2:
                            take(e2)
                            beh.append(e2)
                        cur = edges[p2[-1]][2]
                        continue
                    take(e)
                    beh.append(e)
                    cur = edges[e][2]
                fo.write(json.dumps({"id": nbeh, "init": comp(states[root[s]]),
                                     "steps": [{"act": edges[e][1], "post": comp(states[edges[e][2]])} for e in beh]}) + "\n")
                nbeh += 1
                steps += len(beh)
    return {"states": len(states), "edges": len(edges), "behaviours": nbeh, "steps": steps, "untaken": len(todo) + unreachable}
