#!/usr/bin/env python3
"""bin/check replay <file>: re-executes a recorded violation on /repo's current tree."""
import json
import os
import shutil
import subprocess

from vlib import *


def run(path):
    body = json.load(open(path))
    rp = body["replay"]
    prop = body["property"]
    wd = scratch("wv-replay-")
    try:
        kind = rp.get("kind")
        if kind == "core-line":
            binp = build_harness(wd)
            line = rp["line"]
            if "fetch" in line:   # a state with one fetch
                a, f, u = line["fetch"]
                rec = {"kind": "state", "s": line["state"], "grid": rp.get("grid", [])}
                # re-export the expected row from the specification for this state
                rec = _state_with_grid(wd, line["state"])
            else:
                rec = {"kind": "edge", "s": line["s"], "op": line["op"], "s2": line["s2"]}
            inp = os.path.join(wd, "in.ndjson")
            open(inp, "w").write(json.dumps(rec) + "\n")
            outj = os.path.join(wd, "out.json")
            p = subprocess.run([binp, "core", prop, inp, outj], stdout=subprocess.PIPE, stderr=subprocess.STDOUT, text=True)
            if p.returncode != 0:
                raise Broken(p.stdout)
            r = json.load(open(outj))
            for v in r["violations"]:
                log("VIOLATION property=%s replay=%s" % (prop, path))
                log("  %s: %s" % (v["what"], v["detail"]))
                return 1
            log("replay: no violation on the current tree")
            return 0
        if kind == "core-trace":
            import check_core
            binp = build_harness(wd)
            tf = os.path.join(wd, "t.ndjson")
            p = subprocess.run([binp, "drive-core", prop, str(rp["seed"]), str(rp["trace"]), "1", tf],
                               stdout=subprocess.PIPE, stderr=subprocess.STDOUT, text=True)
            if p.returncode != 0:
                raise Broken(p.stdout)
            ok, total, rej = validate_traces(wd, "Trace_Core", check_core.TRACE_CFG % prop, tf, "rp")
            if rej is None:
                log("replay: trace accepted on the current tree (%d lines)" % total)
                return 0
            log("VIOLATION property=%s replay=%s" % (prop, path))
            log("  rejected line %d: %s" % (rej, open(tf).read().splitlines()[rej - 1][:500]))
            return 1
        import importlib
        for modname in ("check_cli", "check_misc", "check_conc"):
            try:
                mod = importlib.import_module(modname)
            except ImportError:
                continue
            if hasattr(mod, "replay") and kind in getattr(mod, "REPLAY_KINDS", ()):
                return mod.replay(wd, prop, rp, path)
        # every other kind (fault grid, format/text/codec/hostile cases, concurrency logs): the recorded case is
        # part of a deterministic, seeded enumeration - re-run that enumeration on the current tree
        seed = rp.get("seed", 1)
        log("replay: re-running bin/check %s quick with VERIF_SEED=%s (recorded case: %s)" % (prop, seed, json.dumps(rp)[:300]))
        env = dict(os.environ, VERIF_SEED=str(seed), VERIF_TIER="quick")
        p = subprocess.run([os.path.join(VERIF, "bin", "check"), prop, "quick"], env=env)
        return p.returncode
    finally:
        shutil.rmtree(wd, ignore_errors=True)


def _state_with_grid(wd, state):
    """Ask the specification (TLC) for the fetch grid of exactly this state."""
    import check_core
    lay = "<<" + ",".join("<<%d,%d>>" % (a["step"], a["n"]) for a in state["cfg"]["layout"]) + ">>"
    ring = "<<" + ",".join("<<" + ",".join("[t |-> %d, v |-> <<%s>>]" % (s["t"], ",".join(str(x) for x in s["v"]))
                                           for s in ra) + ">>" for ra in state["ring"]) + ">>"
    mod = """---- MODULE MC_One ----
EXTENDS WhisperCore
TheLayout == [i \\in 1..Len(%s) |-> [step |-> %s[i][1], n |-> %s[i][2]]]
OneLayouts == {TheLayout}
OneMethods == {"%s"}
OneXffs == {<<%d,%d>>}
OneVals == {12}
NoTicks == {}
OneInit == Init /\\ ring = %s
OneNext == FALSE /\\ UNCHANGED vars
OneSpec == cfg \\in Configs /\\ now = %d /\\ ring = %s /\\ durable = ring /\\ occ = EmptyOcc(cfg.layout) /\\ docc = occ /\\ op = [name |-> "init"] /\\ [][OneNext]_vars
====
""" % (lay, lay, lay, state["cfg"]["method"], state["cfg"]["xff"][0], state["cfg"]["xff"][1], ring, state["now"], ring)
    sdir = os.path.join(wd, "spec-one")
    shutil.copytree(SPEC, sdir)
    open(os.path.join(sdir, "MC_One.tla"), "w").write(mod)
    cfg = """SPECIFICATION OneSpec
CONSTANTS
  Quirks = {}
  Layouts <- OneLayouts
  Methods <- OneMethods
  Xffs <- OneXffs
  T0 = %d
  Horizon = 0
  Ticks <- NoTicks
  Vals <- OneVals
  ValUnit = 12
  MaxBatch = 1
  FutureMax = 0
  NaNVal = FALSE
  ValMode = "free"
  WithSync = FALSE
  Export = "states"
  ExportSample = 1
INVARIANTS ExportState
CHECK_DEADLOCK FALSE
""" % state["now"]
    res = run_tlc(wd, "MC_One", cfg, "one", workers=1)
    for line in open(res["path"], errors="replace"):
        if line.startswith('"{'):
            return json.loads(json.loads(line))
    raise Broken("could not re-export the state's fetch grid")
