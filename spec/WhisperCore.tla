----------------------------- MODULE WhisperCore -----------------------------
(***************************************************************************)
(* One Whisper file behind one live handle: layout, rings, write path,     *)
(* propagation, fetch, Sync and handle abandonment.                        *)
(* Properties C01-C05 are stated here as invariants / action properties    *)
(* over independent ghost state.                                           *)
(***************************************************************************)
EXTENDS WhisperOps, Json, SequencesExt

CONSTANTS Layouts,    \* set of layouts, each a sequence of [step |-> s, n |-> n]
          Methods,    \* subset of {"average","sum","last","max","min","first"}
          Xffs,       \* set of <<p, q>> : xFilesFactor = p/q
          T0,         \* initial clock
          Horizon,    \* clock never exceeds T0 + Horizon
          Vals,       \* integers that may be written
          MaxBatch,   \* maximal batch length
          Ticks,      \* clock increments; the token 0 stands for MaxRet+1 (longer than any retention)
          NaNVal,     \* TRUE: NaN is one of the values that may be written (a stored NaN differs from an empty slot)
          FutureMax,  \* batch points may be dated up to now + FutureMax (the library accepts them)
          ValUnit,    \* tagged values are multiples of this (lcm of the averaging divisors)
          ValMode,    \* "free": any value of Vals per point; "tagged": value determined by (time, supply index)
          WithSync,   \* TRUE: Sync / Abandon actions enabled
          Export,     \* "none" | "edges" | "states" | "all" | "steps"
          ExportSample \* batches longer than one point are exported with probability 1/ExportSample

VARIABLES cfg,      \* file configuration (constant after Init)
          now,      \* the clock every call receives
          ring,     \* live handle's view: physical slots of every archive
          durable,  \* file bytes on disk (as rings); differs from ring between Syncs
          occ,      \* ghost: per archive and ring class, the last (interval, value) written
          docc,     \* ghost as of the last Sync
          op        \* last operation with its arguments and results (history variable)

vars == <<cfg, now, ring, durable, occ, docc, op>>
View == <<cfg, now, ring, durable, occ, docc>>

L == cfg.layout
KK == Len(L)

EmptyOcc(l) == [a \in 1..Len(l) |-> [cl \in 0..(l[a].n - 1) |-> Empty]]

RECURSIVE ApplyLog(_, _)
ApplyLog(o, log) ==
  IF log = <<>> THEN o
  ELSE LET e == Head(log)
       IN ApplyLog([o EXCEPT ![e[1]] = [@ EXCEPT ![ClassOf(cfg, e[1], e[2])] = [t |-> e[2], v |-> e[3]]]],
                   Tail(log))

Configs == {[layout |-> l, method |-> m, xff |-> x] : l \in Layouts, m \in Methods, x \in Xffs}

Init == /\ cfg \in Configs
        /\ now = T0
        /\ ring = EmptyRing(cfg.layout)
        /\ durable = ring
        /\ occ = EmptyOcc(cfg.layout)
        /\ docc = occ
        /\ op = [name |-> "init"]

(***************************************************************************)
(* Domains of the write actions (the part of the API the properties speak  *)
(* about; see spec/UNSPECIFIED.md for what is left out and why)            *)
(***************************************************************************)
TimeDom == (now - MaxRet(cfg) - 1)..(now + FutureMax)
\* tagged values: distinct per (interval, supply index), both signs, multiples of ValUnit
Tag(t, i) == Num(ValUnit * ((t - T0 + 40) * 4 + i) * (IF t % 2 = 0 THEN 1 ELSE -1))
PointDom == IF ValMode = "free"
            THEN {[t |-> t, v |-> x] : t \in TimeDom, x \in {Num(y) : y \in Vals} \cup (IF NaNVal THEN {NaN} ELSE {})}
            ELSE {[t |-> t, v |-> Tag(t, 0)] : t \in TimeDom}

\* archive a batch point is routed to (0 = dropped as too old)
RouteOf(sel, p) ==
  IF sel # 0 THEN (IF p.t > now - RetOf(cfg, sel) THEN sel ELSE 0)
  ELSE LET cand == {a \in 1..KK : p.t > now - RetOf(cfg, a)}
       IN IF cand = {} THEN 0 ELSE CHOOSE a \in cand : \A b \in cand : a <= b

\* same-slot points whose supply order contradicts their timestamp order are
\* resolved by timestamp in the code while C03 says "supplied last": unspecified
Agreed(sel, pts) ==
  \A i, j \in 1..Len(pts) :
     (i < j /\ pts[i].t > pts[j].t) =>
        LET d == RouteOf(sel, pts[i]) IN
        ~(d # 0 /\ d = RouteOf(sel, pts[j])
          /\ AlignW(StepOf(cfg, d), pts[i].t) = AlignW(StepOf(cfg, d), pts[j].t))

Batches == IF ValMode = "free"
           THEN UNION {[1..n -> PointDom] : n \in 1..MaxBatch}
           ELSE UNION {{[i \in 1..n |-> [t |-> ts[i], v |-> Tag(ts[i], i)]] : ts \in [1..n -> TimeDom]} : n \in 1..MaxBatch}

Tick(d) == /\ now + d <= T0 + Horizon
           /\ now' = now + d
           /\ UNCHANGED <<cfg, ring, durable, occ, docc>>
           /\ op' = [name |-> "tick", d |-> d]

Update(sel, p) ==
  /\ sel # 0 => p.t > now - RetOf(cfg, sel)      \* older: unspecified
  /\ LET res == UpdateOne(cfg, ring, now, sel, p)
     IN /\ ring' = res.st.ring
        /\ occ' = ApplyLog(occ, res.st.log)
        /\ op' = [name |-> "update", sel |-> sel, p |-> p, ok |-> res.ok]
  /\ UNCHANGED <<cfg, now, durable, docc>>

UpdateMany(sel, pts) ==
  /\ Agreed(sel, pts)
  /\ LET st2 == UpdateBatch(cfg, ring, now, sel, pts)
     IN /\ ring' = st2.ring
        /\ occ' = ApplyLog(occ, st2.log)
        /\ op' = [name |-> "many", sel |-> sel, pts |-> pts,
                   dest |-> [i \in 1..Len(pts) |-> RouteOf(sel, pts[i])]]
  /\ UNCHANGED <<cfg, now, durable, docc>>

Sync == /\ WithSync
        /\ durable' = ring /\ docc' = occ
        /\ UNCHANGED <<cfg, now, ring, occ>>
        /\ op' = [name |-> "sync"]

\* the handle is dropped (Close without Sync, or the process dies) and the file reopened
Abandon == /\ WithSync
           /\ ring' = durable /\ occ' = docc
           /\ UNCHANGED <<cfg, now, durable, docc>>
           /\ op' = [name |-> "abandon"]

Next == \/ \E d \in Ticks : Tick(IF d = 0 THEN MaxRet(cfg) + 1 ELSE d)
        \/ \E sel \in 0..KK, p \in PointDom : Update(sel, p)
        \/ \E sel \in 0..KK, b \in Batches : UpdateMany(sel, b)
        \/ Sync
        \/ Abandon

Spec == Init /\ [][Next]_vars

(***************************************************************************)
(* C01  ring storage                                                       *)
(***************************************************************************)
\* every physical slot equals the ghost occupant of its ring class
RingInv ==
  \A a \in 1..KK :
    LET ra == ring[a] IN
    IF BaseOf(ra) = 0 THEN \A i \in 1..NOf(cfg, a) : ra[i] = Empty /\ occ[a][i - 1] = Empty
    ELSE \A i \in 1..NOf(cfg, a) :
           ra[i] = occ[a][(ClassOf(cfg, a, BaseOf(ra)) + i - 1) % NOf(cfg, a)]

WinLo == T0 - MaxRet(cfg) - 2
\* 0 is the epoch (the harness maps model time 0 to real time 0): a bound far before every retention, for from AND until
WinDom == (WinLo..(now + 2)) \cup {0}
Windows == {<<f, u>> \in WinDom \X WinDom : f <= u}

\* fetch returns the most recent write to exactly that interval if it still
\* occupies its slot, NaN otherwise
C01 ==
  \A a \in 1..KK : \A w \in Windows :
    LET res == Fetch(cfg, ring, now, a, w[1], w[2]) IN
    res.k = "ts" =>
      \A i \in 1..Len(res.vals) :
        LET I == res.from + (i - 1) * res.step
            o == occ[a][ClassOf(cfg, a, I)]
        IN res.vals[i] = IF o.t = I THEN o.v ELSE NaN

(***************************************************************************)
(* C04  fetch window contract: shape is a closed form of layout/window/now *)
(***************************************************************************)
AllWindows == WinDom \X WinDom
C04 ==
  \A a \in (-1)..(KK + 1) : \A w \in AllWindows :
    ShapeOf(Fetch(cfg, ring, now, a, w[1], w[2])) = FetchShape(cfg, now, a, w[1], w[2])

(***************************************************************************)
(* C02 / C03  action properties over write steps                           *)
(***************************************************************************)
IsWrite == op'.name \in {"update", "many"}
WPts == IF op'.name = "update" THEN (IF op'.ok THEN <<op'.p>> ELSE <<>>) ELSE op'.pts
WSel == op'.sel
\* destination of the i-th point of the step
Dest(i) == IF op'.name = "update"
           THEN (IF WSel = 0 THEN BestArchive(cfg, now, WPts[i].t) ELSE WSel)
           ELSE RouteOf(WSel, WPts[i])
Routed == {i \in 1..Len(WPts) : Dest(i) # 0}
AlignedAt(b, i) == AlignW(StepOf(cfg, b), WPts[i].t)

\* C03 single: accepted iff not in the future and younger than the max retention;
\* stored in the finest archive whose retention is at least the age
C03Single ==
  (op'.name = "update") =>
    LET age == now - op'.p.t IN
    /\ op'.ok = (age >= 0 /\ age < MaxRet(cfg))
    /\ ~op'.ok => ring' = ring
    /\ (op'.ok /\ op'.sel = 0) =>
         LET cand == {a \in 1..KK : RetOf(cfg, a) >= age}
             d == CHOOSE a \in cand : \A b \in cand : a <= b
         IN /\ [t |-> AlignW(StepOf(cfg, d), op'.p.t), v |-> op'.p.v] \in Content(ring'[d])
            /\ \A b \in 1..(d - 1) : ring'[b] = ring[b]

\* C03 batch: for every destination archive and ring class the winner among the
\* routed points (latest timestamp, then latest supplied) is what the class holds
C03Batch ==
  (op'.name = "many") =>
    \A d \in 1..KK : \A cl \in 0..(NOf(cfg, d) - 1) :
      LET G == {i \in Routed : Dest(i) = d /\ ClassOf(cfg, d, AlignedAt(d, i)) = cl}
      IN G # {} =>
           LET w == CHOOSE i \in G : \A j \in G :
                       WPts[j].t < WPts[i].t \/ (WPts[j].t = WPts[i].t /\ j <= i)
           IN [t |-> AlignedAt(d, w), v |-> WPts[w].v] \in Content(ring'[d])

\* frame: a pair appears in an archive only as the destination of a routed point or
\* as an aggregate covering one; a pair disappears only by being overwritten
WriteFrame ==
  IsWrite =>
    \A b \in 1..KK :
      /\ \A s \in Content(ring'[b]) \ Content(ring[b]) :
           \E i \in Routed : Dest(i) <= b /\ AlignedAt(b, i) = s.t
      /\ \A s \in Content(ring[b]) \ Content(ring'[b]) :
           \E s2 \in Content(ring'[b]) \ Content(ring[b]) :
             ClassOf(cfg, b, s2.t) = ClassOf(cfg, b, s.t)

\* C02, declarative and post-state based (independent of the work-list algorithm):
\* only for steps whose routed points share one destination archive d.
SingleDest == Routed # {} /\ \A i, j \in Routed : Dest(i) = Dest(j)
TheDest == Dest(CHOOSE i \in Routed : TRUE)

RatioOf(b) == StepOf(cfg, b) \div StepOf(cfg, b - 1)
KnownPost(b, t) == Known(cfg, b - 1, ring'[b - 1], t, RatioOf(b))
StoredOK(b, t) == LET k == Len(KnownPost(b, t))
                  IN k >= 1 /\ k * cfg.xff[2] >= cfg.xff[1] * RatioOf(b)
RECURSIVE CandAt(_), StoredAt(_)
StoredAt(b) == {t \in CandAt(b) : StoredOK(b, t)}
CandAt(b) == IF b = TheDest + 1
             THEN {AlignedAt(b, i) : i \in Routed}
             ELSE {AlignW(StepOf(cfg, b), t) : t \in StoredAt(b - 1)}

SetMax(S) == CHOOSE x \in S : \A y \in S : y <= x

C02Post ==
  (IsWrite /\ SingleDest) =>
    \A b \in (TheDest + 1)..KK :
      \A cl \in 0..(NOf(cfg, b) - 1) :
        LET S == {t \in StoredAt(b) : ClassOf(cfg, b, t) = cl}
            before == {s \in Content(ring[b]) : ClassOf(cfg, b, s.t) = cl}
            after == {s \in Content(ring'[b]) : ClassOf(cfg, b, s.t) = cl}
        IN IF S = {} THEN after = before
           ELSE after = {[t |-> SetMax(S), v |-> Agg(cfg.method, KnownPost(b, SetMax(S)))]}

\* no value is ever invented from an empty set of known finer values
\* (stated on the post-state, hence only for steps with one destination archive: in a
\* multi-destination batch a later direct write may overwrite the finer slot an aggregate
\* was computed from)
NoInvented ==
  (IsWrite /\ SingleDest) =>
    \A b \in 2..KK : \A s \in Content(ring'[b]) \ Content(ring[b]) :
      (\A i \in Routed : Dest(i) # b \/ AlignedAt(b, i) # s.t) =>
         Len(Known(cfg, b - 1, ring'[b - 1], s.t, RatioOf(b))) >= 1

(***************************************************************************)
(* C05  the disk image changes only in Sync; abandonment yields it         *)
(***************************************************************************)
C05DiskOnlyInSync == (durable' # durable) => op'.name = "sync"
C05SyncExact == (op'.name = "sync") => durable' = ring /\ ring' = ring
C05Abandon == (op'.name = "abandon") => ring' = durable /\ durable' = durable


PC03Single == [][C03Single]_vars
PC03Batch == [][C03Batch]_vars
PWriteFrame == [][WriteFrame]_vars
PC02Post == [][C02Post]_vars
PNoInvented == [][NoInvented]_vars
PC05 == [][C05DiskOnlyInSync /\ C05SyncExact /\ C05Abandon]_vars

(***************************************************************************)
(* Export for spec -> code replay (ACTION_CONSTRAINT / INVARIANT hooks)    *)
(***************************************************************************)
StateRec(c, n, r) == [cfg |-> c, now |-> n, ring |-> r]

\* compact fetch table of a state: <<a, from, until, kind, rfrom, runtil, step, vals>>
FetchRow(a, f, u) ==
  LET res == Fetch(cfg, ring, now, a, f, u)
  IN IF res.k = "ts" THEN <<a, f, u, "ts", res.from, res.until, res.step, res.vals, res.arch, res.deg>>
     ELSE <<a, f, u, res.k>>
GridSeq ==
  LET ws == SetToSeq(AllWindows)
      nw == Len(ws)
  IN [i \in 1..(nw * (KK + 1) + 2) |->
        IF i = nw * (KK + 1) + 1 THEN FetchRow(-1, now - 1, now)
        ELSE IF i = nw * (KK + 1) + 2 THEN FetchRow(KK + 1, now - 1, now)
        ELSE LET a == (i - 1) \div nw
                 w == ws[((i - 1) % nw) + 1]
             IN FetchRow(a, w[1], w[2])]

\* every update edge and every batch of one point; longer batches 1 in ExportSample
ExportEdge ==
  IF Export \in {"edges", "all"} /\ op'.name \in {"update", "many"}
     /\ (op'.name = "update" \/ Len(op'.pts) = 1 \/ ExportSample = 1 \/ RandomElement(1..ExportSample) = 1)
  THEN PrintT(ToJson([kind |-> "edge", s |-> StateRec(cfg, now, ring), op |-> op',
                      s2 |-> StateRec(cfg', now', ring')]))
  ELSE TRUE

ExportState ==
  IF Export \in {"states", "all"}
  THEN PrintT(ToJson([kind |-> "state", s |-> StateRec(cfg, now, ring), grid |-> GridSeq]))
  ELSE TRUE

\* behaviours (simulation mode): as an INVARIANT this is evaluated on the states a simulated behaviour actually
\* visits (an ACTION_CONSTRAINT would be evaluated on every candidate successor); `op` tells which call led here
ExportVisited ==
  IF Export = "steps"
  THEN PrintT(ToJson([kind |-> "step", lvl |-> TLCGet("level"), cfg |-> cfg, now |-> now,
                      op |-> op, ring |-> ring, durable |-> durable]))
  ELSE TRUE

\* behaviours (simulation mode): every step with full pre/post incl. durable
ExportStep ==
  IF Export = "steps"
  THEN PrintT(ToJson([kind |-> "step", lvl |-> TLCGet("level"), cfg |-> cfg, now |-> now',
                      op |-> op', ring |-> ring', durable |-> durable']))
  ELSE TRUE

=============================================================================
