------------------------------ MODULE Trace_CLI ------------------------------
(***************************************************************************)
(* code -> spec for the commands: every ndjson line is one execution of a  *)
(* REAL command on a tree the driver built with the library (large,        *)
(* multi-page layouts, real-epoch clocks, glob mode).  Lines are           *)
(* independent: each carries the (sparse) files before the command, the    *)
(* arguments, the clock, the outcome class and the observable result.  A   *)
(* line is accepted iff the outcome is what WhisperCLI's operator yields.  *)
(***************************************************************************)
EXTENDS WhisperCLI, IOUtils

Trace == ndJsonDeserialize(IOEnv.TRACE_FILE)

VARIABLE l
tvars == <<l, fs, now, nprep, op, ccfg>>

Ln == Trace[l]

LayOf(j) == [i \in 1..Len(j.layout) |-> [step |-> j.layout[i].step, n |-> j.layout[i].n]]
CfgOf(j) == [layout |-> LayOf(j), method |-> j.method, xff |-> <<j.xff[1], j.xff[2]>>]

FullT(c, sp) ==
  [a \in 1..K(c) |->
     LET ents == sp[a]
         at(i) == {j \in 1..Len(ents) : ents[j][1] = i}
     IN [i \in 1..NOf(c, a) |->
           IF at(i) = {} THEN Empty
           ELSE LET e == ents[CHOOSE j \in at(i) : TRUE] IN [t |-> e[2], v |-> e[3]]]]

FileOf(j) == IF "absent" \in DOMAIN j THEN Absent ELSE File(CfgOf(j.cfg), FullT(CfgOf(j.cfg), j.sp))
FilesOf(js) == [i \in 1..Len(js) |-> FileOf(js[i])]

\* outcome classes as the harness reports them
ClassOf3(k) == CASE k \in {"ok", "clean", "missing"} -> {"ok"}
                 [] k = "diff" -> {"diff"}
                 [] k = "notexist" -> {"notexist"}
                 [] k = "err" -> {"err"}
                 [] k = "err-or-diff" -> {"err", "diff"}
                 [] k = "err-or-missing" -> {"err", "ok"}
                 [] k = "any" -> {"ok", "diff", "err", "notexist"}

Recs3(rs) == [i \in 1..Len(rs) |-> <<rs[i][1], rs[i][2], rs[i][3]>>]
Recs5(rs) == [i \in 1..Len(rs) |-> <<rs[i][1], rs[i][2], rs[i][3], rs[i][4], rs[i][5]>>]

CopyOK ==
  LET res == CopyOp(FileOf(Ln.src), FileOf(Ln.dst), Ln.sel, Ln.f, Ln.u, Ln.cn, CfgOf(Ln.ccfg))
  IN /\ Ln.k \in ClassOf3(res.k)
     /\ res.k = "ok" => Recs3(Ln.post) = PostRecs(res.d, Ln.sel, <<Ln.f, Ln.u>>)

\* C11 is relative to what sum computes: a line whose logged real sum deviates from the specification's sum is C10's
SumAsSpecified ==
  ("sumrecs" \notin DOMAIN Ln) \/
  LET sm == SumOp(FilesOf(Ln.files), Ln.sel, Ln.f, Ln.u)
  IN Ln.sumk \in ClassOf3(sm.k) /\ (sm.k = "ok" => Recs3(Ln.sumrecs) = AllSeriesRecs(sm.ts, 1))

SumCopyOK ==
  ~SumAsSpecified \/
  LET res == SumCopyOp(FilesOf(Ln.files), FileOf(Ln.dst), Ln.sel, Ln.f, Ln.u, CfgOf(Ln.ccfg))
  IN /\ Ln.k \in ClassOf3(res.k)
     /\ res.k = "ok" => Recs3(Ln.post) = PostRecs(res.d, Ln.sel, <<Ln.f, Ln.u>>)

DiffOK ==
  LET res == DiffOp(FileOf(Ln.src), FileOf(Ln.dst), Ln.sel, Ln.f, Ln.u)
  IN /\ Ln.k \in ClassOf3(res.k)
     /\ res.k \in {"clean", "diff"} => Recs5(Ln.recs) = res.recs

GlobDiffOK ==
  LET pairs == [i \in 1..Len(Ln.pairs) |-> <<FileOf(Ln.pairs[i].src), FileOf(Ln.pairs[i].dst)>>]
      res == GlobDiffOp(pairs, Ln.sel, Ln.f, Ln.u)
  IN /\ Ln.k \in ClassOf3(res.k)
     /\ res.k \in {"clean", "diff"} => Recs5(Ln.recs) = res.recs

SumDiffOK ==
  ~SumAsSpecified \/
  LET res == SumDiffOp(FilesOf(Ln.files), FileOf(Ln.dst), Ln.sel, Ln.f, Ln.u)
  IN /\ Ln.k \in ClassOf3(res.k)
     /\ res.k \in {"clean", "diff"} => Recs5(Ln.recs) = res.recs

ItemsSumAsSpecified ==
  \A i \in 1..Len(Ln.items) :
    ("sumrecs" \notin DOMAIN Ln.items[i]) \/
    LET sm == SumOp(FilesOf(Ln.items[i].files), Ln.sel, Ln.f, Ln.u)
    IN Ln.items[i].sumk \in ClassOf3(sm.k) /\ (sm.k = "ok" => Recs3(Ln.items[i].sumrecs) = AllSeriesRecs(sm.ts, 1))

GlobSumDiffOK ==
  ~ItemsSumAsSpecified \/
  LET items == [i \in 1..Len(Ln.items) |-> <<FilesOf(Ln.items[i].files), FileOf(Ln.items[i].dst)>>]
      res == GlobSumDiffOp(items, Ln.sel, Ln.f, Ln.u)
  IN /\ Ln.k \in ClassOf3(res.k)
     /\ res.k \in {"clean", "diff"} => Recs5(Ln.recs) = res.recs

SumOK ==
  LET res == SumOp(FilesOf(Ln.files), Ln.sel, Ln.f, Ln.u)
  IN /\ Ln.k \in ClassOf3(res.k)
     /\ res.k = "ok" => Recs3(Ln.recs) = AllSeriesRecs(res.ts, 1)
     \* the header shown is the first matched file's (the per-file reads run concurrently, the result does not depend on it)
     /\ (res.k = "ok" /\ "hdr" \in DOMAIN Ln) => Ln.hdr = res.cfg.method

ViewOK ==
  LET res == ViewOp(FileOf(Ln.src), Ln.sel, Ln.f, Ln.u)
  IN /\ Ln.k \in ClassOf3(res.k)
     /\ res.k = "ok" => Recs3(Ln.recs) = res.recs

ViewRawOK ==
  LET res == ViewRawOp(FileOf(Ln.src), Ln.sel, Ln.f, Ln.u, Ln.sorted)
  IN /\ Ln.k \in ClassOf3(res.k)
     /\ res.k = "ok" => Recs3(Ln.recs) = res.recs

\* generate: the file did not exist; afterwards it holds the requested header and any ring the
\* specification allows; a second run on the same path fails and leaves the bytes alone
GenerateOKLine ==
  LET c == CfgOf(Ln.cfg)
  IN /\ Ln.k = "ok"
     /\ CfgOf(Ln.hdr) = c
     /\ GenerateOK(c, FullT(c, Ln.post), Ln.max, Ln.fill, Ln.now)
     /\ Ln.again = "err" /\ Ln.unchanged

LineOK == CASE Ln.ev = "copy" -> CopyOK
            [] Ln.ev = "generate" -> GenerateOKLine
            [] Ln.ev = "sumcopy" -> SumCopyOK
            [] Ln.ev = "diff" -> DiffOK
            [] Ln.ev = "diffglob" -> GlobDiffOK
            [] Ln.ev = "sumdiff" -> SumDiffOK
            [] Ln.ev = "sumdiffglob" -> GlobSumDiffOK
            [] Ln.ev = "sum" -> SumOK
            [] Ln.ev = "view" -> ViewOK
            [] Ln.ev = "viewraw" -> ViewRawOK

TInit == /\ l = 1
         /\ now = IF Len(Trace) >= 1 THEN Trace[1].now ELSE 0
         /\ fs = [n \in Names |-> Absent] /\ nprep = 0 /\ op = [name |-> "trace"]
         /\ ccfg = [layout |-> <<[step |-> 1, n |-> 1]>>, method |-> "sum", xff |-> <<0, 1>>]

TNext == /\ l <= Len(Trace)
         /\ "parse_error" \notin DOMAIN Ln        \* what the command printed must be readable as records
         /\ LineOK
         /\ l' = l + 1
         /\ now' = IF l + 1 <= Len(Trace) THEN Trace[l + 1].now ELSE now
         /\ UNCHANGED <<fs, nprep, op, ccfg>>

TSpec == TInit /\ [][TNext]_tvars

Accepted ==
  /\ PrintT(<<"TRACE_DEPTH", TLCGet("stats").diameter - 1, Len(Trace)>>)
  /\ TLCGet("stats").diameter - 1 = Len(Trace)
=============================================================================
