------------------------------ MODULE MC_Gen ------------------------------
(***************************************************************************)
(* C20 at design level: generate = per archive (finest first) a batch of   *)
(* one point for every retained slot, written through the library's        *)
(* per-archive batch update (which propagates).  Whatever non-negative      *)
(* values the generator draws - coarser values being the sums of the finer  *)
(* ones where all of them are retained - the resulting file satisfies       *)
(* GenerateOK for every layout, method, xFilesFactor and clock position.    *)
(***************************************************************************)
EXTENDS MC_CLI

GLayouts == {L_2_2, L_2_3, L_3_2b, L_2_2_2}
GMethods == {"sum", "last", "max"}
GXffs == {<<0, 1>>, <<1, 1>>}
GConfigs == {[layout |-> l, method |-> m, xff |-> x] : l \in GLayouts, m \in GMethods, x \in GXffs}
GMax == 1

Covered(c, a, n, I) ==
  {I + j * StepOf(c, a - 1) : j \in 0..((StepOf(c, a) \div StepOf(c, a - 1)) - 1)} \subseteq Retained(c, a - 1, n)

\* all value assignments the generator may draw: vs[a][I]
RECURSIVE GenChoices(_, _, _)
GenChoices(c, n, a) ==
  IF a = 1 THEN {<<f>> : f \in [Retained(c, 1, n) -> 0..GMax]}
  ELSE LET lim == GMax * (StepOf(c, a) \div StepOf(c, 1))
       IN UNION {{Append(prev, f) : f \in {g \in [Retained(c, a, n) -> 0..lim] :
                      \A I \in Retained(c, a, n) : Covered(c, a, n, I) =>
                         g[I] = SumVals([j \in 1..(StepOf(c, a) \div StepOf(c, a - 1)) |->
                                           Num(prev[a - 1][I + (j - 1) * StepOf(c, a - 1)])])}}
                 : prev \in GenChoices(c, n, a - 1)}

PtsOfChoice(c, n, a, f) ==
  LET lo == AlignW(StepOf(c, a), n) - (NOf(c, a) - 1) * StepOf(c, a)
  IN [i \in 1..NOf(c, a) |-> [t |-> lo + (i - 1) * StepOf(c, a), v |-> Num(f[lo + (i - 1) * StepOf(c, a)])]]

RECURSIVE GenLoop(_, _, _, _, _)
GenLoop(c, n, r, vs, a) ==
  IF a > K(c) THEN r
  ELSE GenLoop(c, n, UpdateBatch(c, r, n, a, PtsOfChoice(c, n, a, vs[a])).ring, vs, a + 1)

C20Model ==
  \A c \in GConfigs : \A n \in 100..103 :
    \A vs \in GenChoices(c, n, K(c)) :
      GenerateOK(c, GenLoop(c, n, EmptyRing(c.layout), vs, 1), GMax, TRUE, n)

RECURSIVE SumCard(_)
SumCard(S) == IF S = {} THEN 0 ELSE LET x == CHOOSE y \in S : TRUE IN Cardinality(GenChoices(x[1], x[2], K(x[1]))) + SumCard(S \ {x})
GenCases == PrintT(<<"GEN_CASES", SumCard(GConfigs \X (100..103))>>)

GenInit == /\ fs = [n \in Names |-> Absent] /\ now = 100 /\ nprep = 0 /\ op = [name |-> "gen"]
           /\ ccfg = [layout |-> L_2_2, method |-> "sum", xff |-> <<0, 1>>]
GenSpec == GenInit /\ [][UNCHANGED allvars]_allvars
=============================================================================
