------------------------------ MODULE Trace_Text ------------------------------
(***************************************************************************)
(* code -> spec for C19: every line is (value, what the real printer       *)
(* produced for it, what the real parser returned for that text), or a     *)
(* (string, real parse result) pair.  The real output is bound through the *)
(* specification's PARSER (ParsesTo), never by equality with the            *)
(* specification's printer.                                                 *)
(***************************************************************************)
EXTENDS TextSyntax, IOUtils

Trace == ndJsonDeserialize(IOEnv.TRACE_FILE)
VARIABLE l
Ln == Trace[l]

LayEq(pl, jl) == Len(pl) = Len(jl) /\ \A i \in 1..Len(pl) : pl[i].step = jl[i].step /\ pl[i].n = jl[i].n

LineOK ==
  CASE Ln.ev = "dur" -> ParseDuration(Ln.s) = Ln.x /\ Ln.p = Ln.x
    [] Ln.ev = "durparse" -> LeadingZero(Ln.s) \/ ParseDuration(Ln.s) = Ln.p
    [] Ln.ev = "ts" -> ParseTimestamp(Ln.s) = <<Ln.day, Ln.sod>> /\ Ln.p = <<Ln.day, Ln.sod>>
    [] Ln.ev = "tsparse" -> Ln.p = ParseTimestamp(Ln.s)
    [] Ln.ev = "lay" -> LET v == ParseArchiveList(Ln.s) IN v.ok /\ LayEq(v.l, Ln.l) /\ LayEq(Ln.p, Ln.l)
    [] Ln.ev = "method" -> MethodNames[Ln.m] = Ln.s /\ Ln.p = Ln.m

TInit == l = 1 /\ dummy = 0
TNext == l <= Len(Trace) /\ LineOK /\ l' = l + 1 /\ UNCHANGED dummy
TSpec == TInit /\ [][TNext]_<<l, dummy>>
Accepted ==
  /\ PrintT(<<"TRACE_DEPTH", TLCGet("stats").diameter - 1, Len(Trace)>>)
  /\ TLCGet("stats").diameter - 1 = Len(Trace)
=============================================================================
