----------------------------- MODULE WhisperCodec -----------------------------
(***************************************************************************)
(* The framing protocol of the binary codec (serialization.go and the      *)
(* AppendTo/TakeFrom pairs) as a state machine over MESSAGE SHAPES and the  *)
(* length b of the buffer prefix a decoder is given (C14), and the grid of  *)
(* hostile field classes with their allowed outcomes (C15).                 *)
(* Values are opaque 8-byte words here; the harness instantiates them with  *)
(* adversarial bit patterns.                                                *)
(***************************************************************************)
EXTENDS Integers, Sequences, FiniteSets, TLC, Json

\* shapes: <<"header", k>> | <<"series", n>> | <<"points", c>> | <<"point">> | <<"value">> | <<"timestamp">> | <<"duration">>
CONSTANT MaxCount      \* headers of 1..MaxCount archives, series / point lists of 0..MaxCount elements
Shapes == {<<"header", k>> : k \in 1..MaxCount} \cup {<<"series", n>> : n \in 0..MaxCount} \cup {<<"points", c>> : c \in 0..MaxCount}
          \cup {<<"point">>, <<"value">>, <<"timestamp">>, <<"duration">>}

FixedPart(s) == CASE s[1] = "header" -> 16 [] s[1] = "series" -> 12 [] s[1] = "points" -> 8
                  [] s[1] = "point" -> 12 [] s[1] = "value" -> 8 [] s[1] = "timestamp" -> 4 [] s[1] = "duration" -> 4
MsgLen(s) == CASE s[1] = "header" -> 16 + 12 * s[2] [] s[1] = "series" -> 12 + 8 * s[2] [] s[1] = "points" -> 8 + 12 * s[2]
               [] OTHER -> FixedPart(s)

\* what a decoder answers when given the first b bytes of (message \o trailing)
Outcome(s, b) ==
  IF b < FixedPart(s) THEN [k |-> "want", w |-> FixedPart(s)]       \* the counts are not yet visible
  ELSE IF b < MsgLen(s) THEN [k |-> "want", w |-> MsgLen(s)]
  ELSE [k |-> "ok", rest |-> b - MsgLen(s)]

(***************************************************************************)
(* C14 as invariants over every shape, prefix length and trailing length   *)
(***************************************************************************)
Trailing == {0, 1, 5, 13}
FramingLaws ==
  \A s \in Shapes : \A t \in Trailing : \A b \in 0..(MsgLen(s) + t) :
    LET o == Outcome(s, b)
    IN /\ b >= MsgLen(s) => o.k = "ok" /\ o.rest = b - MsgLen(s)        \* consumes exactly the message
       /\ b < MsgLen(s) => o.k = "want" /\ b < o.w /\ o.w <= MsgLen(s)   \* never succeeds or misreports on a proper prefix

\* the retry loop as a state machine: the caller re-reads with the size asked for
VARIABLES shape, buf, done
vars == <<shape, buf, done>>
Init == shape \in Shapes /\ buf \in 0..4 /\ done = FALSE
Retry == /\ ~done
         /\ LET o == Outcome(shape, buf)
            IN IF o.k = "ok" THEN done' = TRUE /\ buf' = buf ELSE done' = FALSE /\ buf' = o.w
         /\ UNCHANGED shape
Next == Retry \/ (done /\ UNCHANGED vars)
Spec == Init /\ [][Next]_vars /\ WF_vars(Retry)
BufBounded == buf <= MsgLen(shape) \/ buf <= 4
Terminates == <>done

\* concatenated messages decode in sequence: after message i the remainder is exactly the rest
RECURSIVE Consumed(_)
Consumed(ms) == IF ms = <<>> THEN 0 ELSE MsgLen(Head(ms)) + Consumed(Tail(ms))
ConcatLaw ==
  \A m1 \in Shapes, m2 \in Shapes :
    LET total == MsgLen(m1) + MsgLen(m2)
        o1 == Outcome(m1, total)
    IN o1.k = "ok" /\ o1.rest = MsgLen(m2) /\ Outcome(m2, o1.rest).k = "ok" /\ Outcome(m2, o1.rest).rest = 0

(***************************************************************************)
(* C15: hostile field classes.  Allowed outcomes of a decoder on arbitrary *)
(* bytes: "err", "want" (with w > bytes given), "ok" (a well-formed object  *)
(* no larger than the input allows); never "panic"/"hang", and never an     *)
(* allocation out of proportion to the input.                               *)
(***************************************************************************)
CountClasses == {"zero", "one", "small", "exact", "exactplus1", "max31", "two31", "max32", "wrap32", "wrap64", "sign64", "max64"}
StepClasses == {"zero", "one", "minus1", "huge", "normal"}
RangeClasses == {"lt", "eq", "gt", "span32"}
AvailClasses == {"none", "partial", "exact", "extra"}

\* a count that claims more elements than the bytes present can hold
Overclaims(c) == c \in {"exactplus1", "max31", "two31", "max32", "wrap32", "wrap64", "sign64", "max64"}

HostileAllowed(decoder, count, step, range, avail) ==
  CASE decoder = "header" ->
         IF count = "zero" THEN {"err"}                                   \* no archives
         ELSE IF Overclaims(count) THEN {"err", "want"} ELSE {"err", "want", "ok"}
    [] decoder = "series" ->
         IF step \in {"zero", "minus1"} \/ range = "gt" THEN {"err"}
         ELSE {"err", "want", "ok"}
    [] decoder = "points" ->
         IF count \in {"two31", "max32", "wrap32", "wrap64", "max31", "sign64", "max64"} THEN {"err", "want"} ELSE {"err", "want", "ok"}
    [] OTHER -> {"err", "want", "ok"}

HostileLaws ==
  \A d \in {"header", "series", "points"}, c \in CountClasses, s \in StepClasses, r \in RangeClasses, a \in AvailClasses :
    /\ HostileAllowed(d, c, s, r, a) \subseteq {"err", "want", "ok"}
    /\ HostileAllowed(d, c, s, r, a) # {}

\* allocation bound: bytes allocated by one decode call <= AllocFactor * len(input) + AllocConst
AllocFactor == 8
AllocConst == 65536

CONSTANT Export
ExportFraming ==
  IF Export = "codec"
  THEN \A s \in Shapes : \A t \in Trailing : \A b \in 0..(MsgLen(s) + t) :
         PrintT(ToJson([kind |-> "frame", shape |-> s, trailing |-> t, b |-> b, len |-> MsgLen(s), out |-> Outcome(s, b)]))
  ELSE TRUE
ExportHostile ==
  IF Export = "codec"
  THEN /\ \A d \in {"header", "series", "points"}, c \in CountClasses, s \in StepClasses, r \in RangeClasses, a \in AvailClasses :
            PrintT(ToJson([kind |-> "hostile", decoder |-> d, count |-> c, step |-> s, range |-> r, avail |-> a,
                           allowed |-> HostileAllowed(d, c, s, r, a)]))
       /\ PrintT(ToJson([kind |-> "alloc", factor |-> AllocFactor, const |-> AllocConst]))
  ELSE TRUE
CodecCount == PrintT(<<"CODEC_CASES", Cardinality(Shapes), Cardinality(Shapes) * Cardinality(Shapes)>>)
=============================================================================
