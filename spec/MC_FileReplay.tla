--------------------------- MODULE MC_FileReplay ---------------------------
(***************************************************************************)
(* spec -> code binding of WhisperFile: the same actions, each labelled in  *)
(* a history variable `act`, so that TLC's behaviours (exhaustive edge      *)
(* export, or -simulate files) can be replayed as deterministic SCHEDULES   *)
(* of real sessions: one goroutine per process, gated by the verif yield    *)
(* hook between os.OpenFile, flock and the header read of Open, and by the  *)
(* harness between library calls (harness `sched`).                         *)
(*                                                                         *)
(* Not replayable and therefore excluded here (they stay in WhisperFile's   *)
(* exhaustive check and in the free-running drivers): a crash while blocked *)
(* in flock or between flock and the header read (a goroutine cannot be     *)
(* killed there), and the D6 quirk's Finalize.                              *)
(***************************************************************************)
EXTENDS WhisperFile, Json
VARIABLE act
CONSTANT RExport
rvars == <<vars, act>>

Lbl(n, p, pg, t) == act' = [name |-> n, p |-> p, pg |-> pg, t |-> t]

RInit == Init /\ act = [name |-> "init", p |-> "", pg |-> -1, t |-> ""]

RNext ==
  \/ \E p \in Procs :
       \/ OpenFd(p) /\ Lbl("OpenFd", p, -1, "")
       \/ CreateFd(p) /\ Lbl("CreateFd", p, -1, "")
       \/ InitFile(p) /\ Lbl("InitFile", p, -1, "")
       \/ Acquire(p) /\ Lbl("Acquire", p, -1, "")
       \/ ReadHeader(p) /\ Lbl("ReadHeader", p, -1, "")
       \/ \E pg \in Pages : \/ ReadPage(p, pg) /\ Lbl("ReadPage", p, pg, "")
                            \/ WStamp(p, pg) /\ Lbl("WStamp", p, pg, "")
                            \/ FlushPage(p, pg) /\ Lbl("FlushPage", p, pg, "")
       \/ \E pg \in Pages, t \in Threads : Observe(p, t, pg) /\ Lbl("Observe", p, pg, t)
       \/ WLoad(p) /\ Lbl("WLoad", p, -1, "")
       \/ SyncStart(p) /\ Lbl("SyncStart", p, -1, "")
       \/ SyncDone(p) /\ Lbl("SyncDone", p, -1, "")
       \/ Close(p) /\ Lbl("Close", p, -1, "")
       \/ pc[p] \in {"open", "synced"} /\ Crash(p) /\ Lbl("Drop", p, -1, "")
       \* Close called once more on a handle that is already closed (a deferred Close next to an explicit one): a stuttering
       \* step of WhisperFile - it must not touch whoever holds the file now (the descriptor NUMBER may have been reused)
       \/ pc[p] = "idle" /\ sess[p] >= 1 /\ UNCHANGED vars /\ Lbl("CloseAgain", p, -1, "")
  \/ FlipHeader /\ Lbl("FlipHeader", "", -1, "")

RSpec == RInit /\ [][RNext]_rvars

\* the exhaustive run identifies states by the specification's variables only
RView == vars

StateRec == [disk |-> disk, lock |-> lock, pc |-> pc, cache |-> cache, val |-> val, hdrOk |-> hdrOk,
             commits |-> commits, sess |-> sess, seen |-> seen, dirty |-> dirty, exists |-> exists, mode |-> mode, dmg |-> dmg]
StateRecP == [disk |-> disk', lock |-> lock', pc |-> pc', cache |-> cache', val |-> val', hdrOk |-> hdrOk',
              commits |-> commits', sess |-> sess', seen |-> seen', dirty |-> dirty', exists |-> exists', mode |-> mode', dmg |-> dmg']

\* ACTION_CONSTRAINT: one line per transition of the state graph
RExportEdge == IF RExport THEN PrintT(ToJson([kind |-> "redge", pre |-> StateRec, act |-> act', post |-> StateRecP])) ELSE TRUE

\* the properties of WhisperFile hold of the labelled specification as well (same actions)
=============================================================================
