---------------------------- MODULE WhisperFormat ----------------------------
(***************************************************************************)
(* What a well-formed Whisper file header is (C07) and how a file is laid  *)
(* out on disk as 32-bit big-endian words (C06).                           *)
(*                                                                         *)
(* All 32-bit side conditions are written division-style so that TLC's     *)
(* 32-bit integers never overflow.                                         *)
(***************************************************************************)
EXTENDS Integers, Sequences, FiniteSets, TLC, Json, SequencesExt

MaxInt31 == 2147483647
\* (2^32 - 1 - 16) \div 12 : the number of 12-byte records that fit below 2^32 after the meta words
MaxRecords == 357913939

(***************************************************************************)
(* C07: acceptance predicate                                               *)
(***************************************************************************)
ArchOK(a) == a.step > 0 /\ a.n > 0 /\ a.n <= MaxInt31 \div a.step     \* retention fits 31 bits

PairOK(a, b) ==
  /\ a.step < b.step                         \* strictly finer
  /\ b.step % a.step = 0                     \* divides the next step
  /\ a.step * a.n < b.step * b.n             \* strictly shorter retention (both fit, by ArchOK)
  /\ a.n >= b.step \div a.step               \* enough points to consolidate one point of the next

RECURSIVE SumN(_)
SumN(l) == IF l = <<>> THEN 0 ELSE Head(l).n + SumN(Tail(l))

\* every offset and the end of the last archive are below 2^32 (in units of 12 bytes:
\* k header records + all points <= MaxRecords); the sum is formed stepwise to stay in range
RECURSIVE FitsFrom(_, _)
FitsFrom(l, used) == IF l = <<>> THEN TRUE
                     ELSE Head(l).n <= MaxRecords - used /\ FitsFrom(Tail(l), used + Head(l).n)
SizeOK(l) == Len(l) <= MaxRecords /\ FitsFrom(l, Len(l))

ValidLayout(l) ==
  /\ Len(l) >= 1
  /\ \A i \in 1..Len(l) : ArchOK(l[i])
  /\ \A i \in 1..(Len(l) - 1) : PairOK(l[i], l[i + 1])
  /\ SizeOK(l)

ValidMethod(m) == m \in 1..6

\* xFilesFactor classes (float32 bit patterns are instantiated by the harness)
XffClasses == {"negzero", "zero", "half", "one", "oneplus", "negtiny", "nan", "posinf", "neginf", "tiny"}
ValidXff(x) == x \in {"negzero", "zero", "half", "one", "tiny"}

Accepts(l, m, x) == ValidLayout(l) /\ ValidMethod(m) /\ ValidXff(x)

(***************************************************************************)
(* Lemmas TLC checks on the enumerated domain                              *)
(***************************************************************************)
Arch(s, n) == [step |-> s, n |-> n]

\* single-rule violations are rejected, boundaries are on the right side
RuleLemmas ==
  /\ ~ValidLayout(<<>>)
  /\ \A s \in 1..4, n \in 1..4 : ValidLayout(<<Arch(s, n)>>)
  /\ ~ValidLayout(<<Arch(0, 1)>>) /\ ~ValidLayout(<<Arch(1, 0)>>)
  /\ ~ValidLayout(<<Arch(2, 2), Arch(2, 4)>>)                \* equal steps
  /\ ~ValidLayout(<<Arch(2, 4), Arch(3, 4)>>)                \* non-dividing steps
  /\ ~ValidLayout(<<Arch(1, 4), Arch(2, 2)>>)                \* equal retentions
  /\ ValidLayout(<<Arch(1, 4), Arch(2, 3)>>)
  /\ ~ValidLayout(<<Arch(1, 1), Arch(2, 2)>>)                \* one point too few
  /\ ValidLayout(<<Arch(1, 2), Arch(2, 2)>>)
  /\ ~ValidLayout(<<Arch(2, 4), Arch(1, 16)>>)               \* finer archive last
  /\ ValidLayout(<<Arch(1, MaxInt31)>>) = FALSE              \* 2^31-1 points: 12 x points exceeds 32 bits
  /\ ValidLayout(<<Arch(1, MaxRecords - 1)>>)
  /\ ~ValidLayout(<<Arch(1, MaxRecords)>>)
  /\ ~ValidLayout(<<Arch(2, 1073741824)>>)                   \* retention 2^31 does not fit
  /\ ~ValidLayout(<<Arch(1, 631152000)>>)                    \* "1s:20y"

(***************************************************************************)
(* C06: the file as a sequence of 32-bit words                             *)
(***************************************************************************)
\* value words are opaque tokens <<hi, lo>>; Val tokens of the model: <<>> or <<x>> are kept as-is
HeaderWords(c, methodNum, xffWord) ==
  LET k == Len(c.layout)
      RECURSIVE Offs(_, _)
      Offs(i, off) == IF i > k THEN <<>>
                      ELSE <<off, c.layout[i].step, c.layout[i].n>> \o Offs(i + 1, off + 12 * c.layout[i].n)
  IN <<methodNum, c.layout[k].step * c.layout[k].n, xffWord, k>> \o Offs(1, 16 + 12 * k)

RECURSIVE SlotWords(_)
SlotWords(ra) == IF ra = <<>> THEN <<>> ELSE <<Head(ra).t, Head(ra).v, "lo">> \o SlotWords(Tail(ra))
RECURSIVE RingWords(_)
RingWords(r) == IF r = <<>> THEN <<>> ELSE SlotWords(Head(r)) \o RingWords(Tail(r))

Encode(c, r, methodNum, xffWord) == HeaderWords(c, methodNum, xffWord) \o RingWords(r)

FileWords(c) == 4 + 3 * Len(c.layout) + 3 * SumN(c.layout)

Decode(w) ==
  LET k == w[4]
      lay == [i \in 1..k |-> [step |-> w[4 + 3 * (i - 1) + 2], n |-> w[4 + 3 * (i - 1) + 3]]]
      offw(i) == (w[4 + 3 * (i - 1) + 1] \div 4) + 1        \* 1-based word index of archive i
      ring == [i \in 1..k |-> [j \in 1..lay[i].n |-> [t |-> w[offw(i) + 3 * (j - 1)], v |-> w[offw(i) + 3 * (j - 1) + 1]]]]
  IN [layout |-> lay, method |-> w[1], maxret |-> w[2], xff |-> w[3], ring |-> ring]

\* round trip, contiguity and length on a bounded domain
SmallLayouts == {l \in UNION {[1..k -> {Arch(s, n) : s \in {1, 2, 4}, n \in 1..3}] : k \in 1..3} : ValidLayout(l)}
SlotDom == {[t |-> 0, v |-> <<0>>], [t |-> 100, v |-> <<7>>], [t |-> 104, v |-> <<>>]}
EncodeLemma ==
  \A l \in SmallLayouts :
    LET c == [layout |-> l]
        \* one representative ring per layout: slot j of archive i drawn round-robin from SlotDom
        sd == SetToSeq(SlotDom)
        r == [i \in 1..Len(l) |-> [j \in 1..l[i].n |-> sd[((i + j) % 3) + 1]]]
        w == Encode(c, r, 2, "xff")
        d == Decode(w)
    IN /\ Len(w) = FileWords(c)
       /\ d.layout = l /\ d.ring = r /\ d.method = 2 /\ d.xff = "xff"
       /\ d.maxret = l[Len(l)].step * l[Len(l)].n
       /\ \A i \in 1..Len(l) :                             \* contiguous, declaration order
            w[4 + 3 * (i - 1) + 1] = 16 + 12 * Len(l) + 12 * SumN(SubSeq(l, 1, i - 1))

(***************************************************************************)
(* Case enumeration for the binding (exported; the harness feeds every     *)
(* case to NewHeader/Create, the retention-string parser, Header.TakeFrom, *)
(* Open and the CLI flag parsers)                                          *)
(***************************************************************************)
CONSTANT Deep          \* TRUE: larger enumeration (thorough tier)
StepDom == {0, 1, 2, 3, 4, 6}
NDom == {0, 1, 2, 3, 4, 6}
SmallCases == UNION {[1..k -> {Arch(s, n) : s \in StepDom \cup (IF Deep THEN {5, 8, 12} ELSE {}), n \in NDom \cup (IF Deep THEN {5, 8, 12} ELSE {})}] : k \in 1..2}
TripleCases == IF Deep THEN [1..3 -> {Arch(s, n) : s \in {1, 2, 3, 4, 6, 8}, n \in {1, 2, 3, 4}}]
               ELSE [1..3 -> {Arch(s, n) : s \in {1, 2, 3, 4}, n \in {1, 2, 4}}]    \* incl. 1,2,3: the first step divides 3, the second does not
BigCases == {<<Arch(1, MaxInt31)>>, <<Arch(1, MaxRecords)>>, <<Arch(1, MaxRecords - 1)>>, <<Arch(1, MaxRecords - 2)>>,
             <<Arch(2, 1073741824)>>, <<Arch(2, 1073741823)>>, <<Arch(1, 631152000)>>, <<Arch(60, 35791394)>>,
             <<Arch(60, 35791395)>>, <<Arch(1, 178956969), Arch(2, 178956969)>>, <<Arch(1, 178956968), Arch(2, 178956969)>>,
             <<Arch(1, 178956969), Arch(2, 178956968)>>, <<Arch(1, 100), Arch(1073741824, 1)>>, <<Arch(1, 100), Arch(2147483647, 1)>>,
             <<Arch(86400, 24855)>>, <<Arch(86400, 24856)>>,
             \* the file is too long because of an archive that is NOT the last one (every other rule holds)
             <<Arch(1, 631152000), Arch(60, 35740800)>>, <<Arch(1, 357913942), Arch(60, 35740800)>>,
             <<Arch(1, 357913900), Arch(60, 35740800)>>, <<Arch(1, 322000000), Arch(60, 35740800)>>,
             <<Arch(1, 346896000), Arch(60, 35740800), Arch(3600, 595704)>>,
             <<Arch(1, 715827880), Arch(60, 35740800)>>, <<Arch(1, 715827884), Arch(2, 1073741000)>>,
             <<Arch(1, 1000), Arch(10, 200000000), Arch(100, 21474836)>>,
             \* retentions of 2^31 and more whose low 32 bits are a small POSITIVE number (a 32-bit product would look fine)
             <<Arch(1073741824, 5)>>, <<Arch(1073741824, 9)>>, <<Arch(1431655766, 3)>>, <<Arch(65536, 65537)>>, <<Arch(65537, 65537)>>,
             <<Arch(60, 1440), Arch(3600, 1500000)>>, <<Arch(1, 100), Arch(1073741824, 5)>>, <<Arch(2147483647, 3)>>,
             <<Arch(1073741824, 1)>>, <<Arch(1073741823, 2)>>}
AllCases == SmallCases \cup TripleCases \cup BigCases \cup {<<>>}

CONSTANT Export
ExportCases ==
  IF Export = "cases"
  THEN \A l \in AllCases : PrintT(ToJson([kind |-> "layout", layout |-> l, valid |-> ValidLayout(l)]))
  ELSE TRUE
ExportMeta ==
  IF Export = "cases"
  THEN /\ \A m \in 0..9 : PrintT(ToJson([kind |-> "method", m |-> m, valid |-> ValidMethod(m)]))
       /\ \A x \in XffClasses : PrintT(ToJson([kind |-> "xff", x |-> x, valid |-> ValidXff(x)]))
  ELSE TRUE

CaseCount == PrintT(<<"FORMAT_CASES", Cardinality(AllCases), Cardinality({l \in AllCases : ValidLayout(l)})>>)

VARIABLE dummy
Init == dummy = 0
Next == UNCHANGED dummy
Spec == Init /\ [][Next]_dummy
=============================================================================
