------------------------------ MODULE WhisperCLI ------------------------------
(***************************************************************************)
(* The commands (copy, diff, sum, sum-copy, sum-diff, view, view-raw) as   *)
(* pure functions of a small tree of Whisper files, composed from the      *)
(* library operators of WhisperOps exactly as cmd/*.go composes the        *)
(* library calls: one common clock read, one fetch per selected archive of *)
(* every file, layout/window agreement checks, NaN-aware difference,       *)
(* per-archive batch write (which propagates), open-or-create, final Sync. *)
(*                                                                         *)
(* The state machine only PREPARES the tree (named writes and clock ticks  *)
(* on the source files and on the destination, so that coarser archives    *)
(* need not be aggregates of finer ones, NaN holes and stale laps occur);  *)
(* the properties C08-C11, C18 are invariants quantified over every        *)
(* command argument (archive selection x window x NaN mode) in each        *)
(* reachable tree.                                                         *)
(***************************************************************************)
EXTENDS WhisperOps, Json, SequencesExt

CONSTANTS Layouts, Methods, Xffs, T0, Horizon, Vals, MaxPrep, Export, FullGrid, InitMode,
          CQuirks          \* subset of {"D5"}: today's copy (differences computed once, before any write)

Absent == [k |-> "absent"]
File(c, r) == [k |-> "file", cfg |-> c, ring |-> r]
IsFile(f) == f.k = "file"

Names == {"s1", "s2", "d"}      \* two sources (one item), one destination

VARIABLES fs,      \* name -> Absent | File
          now,
          nprep,
          op

vars == <<fs, now, nprep, op>>
View == <<fs, now, nprep>>

Configs == {[layout |-> l, method |-> m, xff |-> x] : l \in Layouts, m \in Methods, x \in Xffs}

\* the configuration the user passes to copy / sum-copy for creating a missing destination
VARIABLE ccfg
allvars == <<fs, now, nprep, op, ccfg>>
CView == <<fs, now, nprep, ccfg>>

\* a directed starting tree (InitMode = "coarse-agree"): source and destination agree in the coarsest archive on a value
\* that is NOT the aggregate of the finer ones, and differ in the finest archive - the situation in which a copy's own
\* propagation rewrites slots that already matched
SeedWrite(c, r, a, t, x) == UpdateOne(c, r, T0, a, [t |-> t, v |-> Num(x)]).st.ring
CoarseAgreeInit ==
  /\ ccfg \in Configs
  /\ \E x \in Vals, t \in {T0, T0 - 1} :
       LET c == ccfg
           top == K(c)
           s == SeedWrite(c, SeedWrite(c, EmptyRing(c.layout), 1, t, x), top, t, 3 * x)
           d == SeedWrite(c, SeedWrite(c, EmptyRing(c.layout), 1, t, 2 * x), top, t, 3 * x)
       IN fs = [n \in Names |-> CASE n = "s1" -> File(c, s) [] n = "s2" -> Absent [] n = "d" -> File(c, d)]
  /\ now = T0 /\ nprep = 0 /\ op = [name |-> "init"]

Init == IF InitMode = "coarse-agree" THEN CoarseAgreeInit ELSE
        /\ ccfg \in Configs
        /\ \E c2 \in Configs, sk \in {"absent", "same", "other"}, dk \in {"absent", "same", "other"} :
             fs = [n \in Names |->
                     CASE n = "s1" -> File(ccfg, EmptyRing(ccfg.layout))
                       [] n = "s2" -> IF sk = "absent" THEN Absent
                                      ELSE IF sk = "same" THEN File(ccfg, EmptyRing(ccfg.layout))
                                      ELSE File(c2, EmptyRing(c2.layout))
                       [] n = "d"  -> IF dk = "absent" THEN Absent
                                      ELSE IF dk = "same" THEN File(ccfg, EmptyRing(ccfg.layout))
                                      ELSE File(c2, EmptyRing(c2.layout))]
        /\ now = T0
        /\ nprep = 0
        /\ op = [name |-> "init"]

MaxRetAll == LET S == {MaxRet(c) : c \in Configs} IN CHOOSE x \in S : \A y \in S : y <= x

Tick(d) == /\ now + d <= T0 + Horizon
           /\ now' = now + d
           /\ UNCHANGED <<fs, nprep, ccfg>>
           /\ op' = [name |-> "tick", d |-> d]

\* a named single write on one of the files (library semantics, incl. propagation)
Prep(n, a, p) ==
  /\ nprep < MaxPrep
  /\ IsFile(fs[n]) /\ a \in 1..K(fs[n].cfg)
  /\ p.t > now - RetOf(fs[n].cfg, a)
  /\ LET res == UpdateOne(fs[n].cfg, fs[n].ring, now, a, p)
     IN fs' = [fs EXCEPT ![n] = File(fs[n].cfg, res.st.ring)]
  /\ nprep' = nprep + 1
  /\ UNCHANGED <<now, ccfg>>
  /\ op' = [name |-> "prep", f |-> n, a |-> a, p |-> p]

PointDom == {[t |-> t, v |-> x] : t \in (now - MaxRetAll)..now, x \in {Num(y) : y \in Vals} \cup {NaN}}

Next == \/ \E d \in {1, 2} : Tick(d)
        \/ \E n \in Names, a \in 1..3, p \in PointDom : Prep(n, a, p)

Spec == Init /\ [][Next]_allvars

(***************************************************************************)
(* Reads                                                                   *)
(***************************************************************************)
None == [k |-> "none"]     \* an absent series (archive not selected, or window outside its retention)

\* cmd/view.go fetchTimeSeriesList: sel = 0 all archives, 1..K one archive, else error.
\* until0 = 0 means "until now".
UntilOf(until0) == IF until0 = 0 THEN now ELSE until0

SeriesOf(f, a, from, until) ==
  LET r == Fetch(f.cfg, f.ring, now, a, from, until)
  IN IF r.k = "ts" THEN r ELSE None

ReadFile(f, sel, from, until0) ==
  IF ~IsFile(f) THEN [k |-> "notexist"]
  ELSE IF sel < 0 \/ sel > K(f.cfg) \/ from > UntilOf(until0) THEN [k |-> "err"]
  ELSE [k |-> "ok", cfg |-> f.cfg,
        ts |-> [a \in 1..K(f.cfg) |->
                  IF sel = 0 \/ sel = a THEN SeriesOf(f, a, from, UntilOf(until0)) ELSE None]]

SameRange(x, y) ==
  IF x.k = "none" \/ y.k = "none" THEN x.k = y.k
  ELSE x.from = y.from /\ x.until = y.until /\ x.step = y.step

ValEq(v, w) == v = w        \* NaN = <<>> equals NaN; numbers compare by value

\* timeseries.go DiffPoints / DiffPointsExcludeSrcNaN: the slots where the two series differ
DiffIdx(x, y, inclNaN) ==
  IF x.k = "none" \/ y.k = "none" THEN {}
  ELSE {i \in 1..Len(x.vals) : ~ValEq(x.vals[i], y.vals[i]) /\ (inclNaN \/ ~IsNaN(x.vals[i]))}

TimeAt(x, i) == x.from + (i - 1) * x.step

(***************************************************************************)
(* copy                                                                    *)
(***************************************************************************)
NewFile(c) == File(c, EmptyRing(c.layout))

RECURSIVE PtsFrom(_, _, _)
\* ascending time order of the differing slots of x
PtsFrom(x, idx, i) ==
  IF i > Len(x.vals) THEN <<>>
  ELSE IF i \in idx THEN <<[t |-> TimeAt(x, i), v |-> x.vals[i]]>> \o PtsFrom(x, idx, i + 1)
  ELSE PtsFrom(x, idx, i + 1)

\* write the source series `sts` into destination ring r, archive by archive (ascending).
\* Repaired algorithm: the difference of archive a is taken against the destination as it
\* is immediately before a is written.  D5 (today's code): all differences are taken
\* from the destination as it was before the first write.
RECURSIVE CopyLoop(_, _, _, _, _, _, _, _)
CopyLoop(c, r0, r, sts, a, from, until, inclNaN) ==
  IF a > K(c) THEN r
  ELSE IF sts[a].k = "none" THEN CopyLoop(c, r0, r, sts, a + 1, from, until, inclNaN)
  ELSE
    LET base == IF "D5" \in CQuirks THEN r0 ELSE r
        d == SeriesOf(File(c, base), a, from, until)
        idx == DiffIdx(sts[a], d, inclNaN)
        pts == PtsFrom(sts[a], idx, 1)
        r2 == IF pts = <<>> THEN r ELSE UpdateBatch(c, r, now, a, pts).ring
    IN CopyLoop(c, r0, r2, sts, a + 1, from, until, inclNaN)

\* result: [k |-> "ok" | "err" | "notexist", d |-> destination afterwards]
CopyOp(src, dst, sel, from, until0, copyNaN, newcfg) ==
  LET d0 == IF IsFile(dst) THEN dst ELSE NewFile(newcfg)    \* open-or-create (always, even on failure)
      rd == ReadFile(src, sel, from, until0)
      dd == ReadFile(d0, sel, from, until0)
  IN IF rd.k = "notexist" THEN [k |-> "notexist", d |-> d0]
     ELSE IF rd.k = "err" \/ dd.k = "err" THEN [k |-> "err", d |-> d0]
     ELSE IF src.cfg.layout # d0.cfg.layout THEN [k |-> "err", d |-> d0]
     ELSE IF \E a \in 1..K(src.cfg) : ~SameRange(rd.ts[a], dd.ts[a]) THEN [k |-> "err", d |-> d0]
     ELSE [k |-> "ok",
           d |-> File(d0.cfg, CopyLoop(d0.cfg, d0.ring, d0.ring, rd.ts, 1, from, UntilOf(until0), copyNaN))]

(***************************************************************************)
(* diff                                                                    *)
(***************************************************************************)
\* records: <<archive, time, srcVal, dstVal, dst - src>> in archive then time order
ValDiff(v, u) == IF IsNaN(v) \/ IsNaN(u) THEN NaN ELSE Num(v[1] - u[1])

RECURSIVE DiffRecs(_, _, _, _)
DiffRecs(a, x, y, i) ==
  IF x.k = "none" \/ i > Len(x.vals) THEN <<>>
  ELSE IF ~ValEq(x.vals[i], y.vals[i])
       THEN <<<<a, TimeAt(x, i), x.vals[i], y.vals[i], ValDiff(y.vals[i], x.vals[i])>>>> \o DiffRecs(a, x, y, i + 1)
       ELSE DiffRecs(a, x, y, i + 1)

RECURSIVE AllDiffRecs(_, _, _)
AllDiffRecs(xs, ys, a) ==
  IF a > Len(xs) THEN <<>> ELSE DiffRecs(a, xs[a], ys[a], 1) \o AllDiffRecs(xs, ys, a + 1)

\* verdict: "clean" | "diff" (ErrDiffFound) | "err"
DiffOfReads(rs, rd) ==
  IF rs.k = "notexist" \/ rd.k = "notexist" THEN
       \* both sides are read concurrently and the first error wins: a missing side together
       \* with a failing side may be reported either way
       IF rs.k = "err" \/ rd.k = "err" THEN [k |-> "err-or-diff", recs |-> <<>>] ELSE [k |-> "diff", recs |-> <<>>]
  ELSE IF rs.k = "err" \/ rd.k = "err" THEN [k |-> "err", recs |-> <<>>]
  ELSE IF rs.cfg.layout # rd.cfg.layout THEN [k |-> "err", recs |-> <<>>]
  ELSE IF \E a \in 1..K(rs.cfg) : ~SameRange(rs.ts[a], rd.ts[a]) THEN [k |-> "err", recs |-> <<>>]
  ELSE LET recs == AllDiffRecs(rs.ts, rd.ts, 1)
       IN [k |-> IF recs = <<>> THEN "clean" ELSE "diff", recs |-> recs]

DiffOp(src, dst, sel, from, until0) == DiffOfReads(ReadFile(src, sel, from, until0), ReadFile(dst, sel, from, until0))

\* diff with a glob pattern: every matched file is compared in order; a differing (or missing) file makes
\* the whole run report a difference; an error stops the run
RECURSIVE GlobDiff(_, _, _, _, _, _)
GlobDiff(pairs, sel, from, until0, found, recs) ==
  IF pairs = <<>> THEN [k |-> IF found THEN "diff" ELSE "clean", recs |-> recs]
  ELSE LET r == DiffOp(Head(pairs)[1], Head(pairs)[2], sel, from, until0)
       IN IF r.k = "err" THEN [k |-> "err", recs |-> recs]
          ELSE IF r.k = "err-or-diff" THEN [k |-> "any", recs |-> recs]
          ELSE GlobDiff(Tail(pairs), sel, from, until0, found \/ r.k = "diff", recs \o r.recs)
GlobDiffOp(pairs, sel, from, until0) == GlobDiff(pairs, sel, from, until0, FALSE, <<>>)

(***************************************************************************)
(* sum / sum-copy / sum-diff                                               *)
(***************************************************************************)
\* timeseries.go Value.Add: NaN-skipping
VAdd(v, u) == IF IsNaN(v) THEN u ELSE IF IsNaN(u) THEN v ELSE Num(v[1] + u[1])

SumSeries(x, y) ==
  IF x.k = "none" THEN x
  ELSE [x EXCEPT !.vals = [i \in 1..Len(x.vals) |-> VAdd(x.vals[i], y.vals[i])]]

\* files: non-empty sequence of files (the glob result in name order)
RECURSIVE SumReads(_, _)
SumReads(acc, rest) ==
  IF rest = <<>> THEN acc
  ELSE SumReads([acc EXCEPT !.ts = [a \in 1..Len(acc.ts) |-> SumSeries(acc.ts[a], Head(rest).ts[a])]], Tail(rest))

SumOp(files, sel, from, until0) ==
  IF files = <<>> THEN [k |-> "notexist"]
  ELSE LET rs == [i \in 1..Len(files) |-> ReadFile(files[i], sel, from, until0)]
       IN IF \E i \in 1..Len(rs) : rs[i].k # "ok" THEN [k |-> "err"]
          ELSE IF \E i \in 2..Len(rs) : rs[i].cfg.layout # rs[1].cfg.layout THEN [k |-> "err"]
          ELSE IF \E i \in 2..Len(rs) : \E a \in 1..Len(rs[1].ts) : ~SameRange(rs[1].ts[a], rs[i].ts[a]) THEN [k |-> "err"]
          ELSE SumReads(rs[1], Tail(rs))

\* sum-copy: like copy with the sum as the source and NaN included
SumCopyOp(files, dst, sel, from, until0, newcfg) ==
  LET d0 == IF IsFile(dst) THEN dst ELSE NewFile(newcfg)
      rd == SumOp(files, sel, from, until0)
      dd == ReadFile(d0, sel, from, until0)
  IN IF rd.k = "notexist" THEN [k |-> "notexist", d |-> d0]
     ELSE IF rd.k = "err" \/ dd.k = "err" THEN [k |-> "err", d |-> d0]
     ELSE IF rd.cfg.layout # d0.cfg.layout THEN [k |-> "err", d |-> d0]
     ELSE IF \E a \in 1..K(rd.cfg) : ~SameRange(rd.ts[a], dd.ts[a]) THEN [k |-> "err", d |-> d0]
     ELSE [k |-> "ok",
           d |-> File(d0.cfg, CopyLoop(d0.cfg, d0.ring, d0.ring, rd.ts, 1, from, UntilOf(until0), TRUE))]

\* sum-diff: a missing side is reported (and, unlike diff, not counted as a difference)
SumDiffOp(files, dst, sel, from, until0) ==
  LET rs == SumOp(files, sel, from, until0)
      rd == ReadFile(dst, sel, from, until0)
  IN IF rs.k = "notexist" \/ rd.k = "notexist"
     THEN (IF rs.k = "err" \/ rd.k = "err" THEN [k |-> "err-or-missing", recs |-> <<>>] ELSE [k |-> "missing", recs |-> <<>>])
     ELSE IF rs.k = "err" \/ rd.k = "err" THEN [k |-> "err", recs |-> <<>>]
     ELSE IF rs.cfg.layout # rd.cfg.layout THEN [k |-> "err", recs |-> <<>>]
     ELSE LET recs == AllDiffRecs(rs.ts, rd.ts, 1)
          IN [k |-> IF recs = <<>> THEN "clean" ELSE "diff", recs |-> recs]

\* sum-diff over several items (item glob): every item is compared in order; one deviating item makes the
\* whole run report a difference; a missing side is reported and skipped; an error stops the run
RECURSIVE GlobSumDiff(_, _, _, _, _, _)
GlobSumDiff(items, sel, from, until0, found, recs) ==
  IF items = <<>> THEN [k |-> IF found THEN "diff" ELSE "clean", recs |-> recs]
  ELSE LET r == SumDiffOp(Head(items)[1], Head(items)[2], sel, from, until0)
       IN IF r.k = "err" THEN [k |-> "err", recs |-> recs]
          ELSE IF r.k = "err-or-missing" THEN [k |-> "any", recs |-> recs]     \* both sides of an item fail concurrently: left open
          ELSE GlobSumDiff(Tail(items), sel, from, until0, found \/ r.k = "diff", recs \o r.recs)
GlobSumDiffOp(items, sel, from, until0) == GlobSumDiff(items, sel, from, until0, FALSE, <<>>)

(***************************************************************************)
(* view / view-raw                                                         *)
(***************************************************************************)
RECURSIVE SeriesRecs(_, _, _)
SeriesRecs(a, x, i) ==
  IF x.k = "none" \/ i > Len(x.vals) THEN <<>>
  ELSE <<<<a, TimeAt(x, i), x.vals[i]>>>> \o SeriesRecs(a, x, i + 1)
RECURSIVE AllSeriesRecs(_, _)
AllSeriesRecs(xs, a) == IF a > Len(xs) THEN <<>> ELSE SeriesRecs(a, xs[a], 1) \o AllSeriesRecs(xs, a + 1)

\* view: <<archive, time, value>> per slot of each selected archive's window, archive then time order
ViewOp(f, sel, from, until0) ==
  LET rd == ReadFile(f, sel, from, until0)
  IN IF rd.k # "ok" THEN [k |-> rd.k, recs |-> <<>>] ELSE [k |-> "ok", recs |-> AllSeriesRecs(rd.ts, 1)]

\* view-raw: all N physical slots of each selected archive, restricted to (from, until]
\* (from = 0: no lower bound; from = until: until moved one step further), optionally stably sorted
RawKeep(c, a, s, from, until0) ==
  LET u0 == UntilOf(until0)
      u == IF u0 = from THEN u0 + StepOf(c, a) ELSE u0
  IN ~((from # 0 /\ s.t <= from) \/ s.t > u)

RECURSIVE RawRecs(_, _, _, _, _, _)
RawRecs(c, a, ra, i, from, until0) ==
  IF i > Len(ra) THEN <<>>
  ELSE IF RawKeep(c, a, ra[i], from, until0)
       THEN <<<<a, ra[i].t, ra[i].v>>>> \o RawRecs(c, a, ra, i + 1, from, until0)
       ELSE RawRecs(c, a, ra, i + 1, from, until0)

RECURSIVE InsByTime(_, _)
InsByTime(s, e) == IF s = <<>> THEN <<e>>
                   ELSE IF s[Len(s)][2] <= e[2] THEN Append(s, e)
                   ELSE Append(InsByTime(SubSeq(s, 1, Len(s) - 1), e), s[Len(s)])
RECURSIVE SortByTime(_, _)
SortByTime(s, acc) == IF s = <<>> THEN acc ELSE SortByTime(Tail(s), InsByTime(acc, Head(s)))

RECURSIVE AllRawRecs(_, _, _, _, _, _)
AllRawRecs(f, sel, a, from, until0, sorted) ==
  IF a > K(f.cfg) THEN <<>>
  ELSE (IF sel = 0 \/ sel = a
        THEN LET rr == RawRecs(f.cfg, a, f.ring[a], 1, from, until0)
             IN IF sorted THEN SortByTime(rr, <<>>) ELSE rr
        ELSE <<>>) \o AllRawRecs(f, sel, a + 1, from, until0, sorted)

ViewRawOp(f, sel, from, until0, sorted) ==
  IF ~IsFile(f) THEN [k |-> "notexist", recs |-> <<>>]
  ELSE IF sel < 0 \/ sel > K(f.cfg) THEN [k |-> "err", recs |-> <<>>]
  ELSE [k |-> "ok", recs |-> AllRawRecs(f, sel, 1, from, until0, sorted)]

(***************************************************************************)
(* Argument grid                                                           *)
(***************************************************************************)
FromGrid == IF FullGrid THEN {0} \cup ((now - MaxRetAll - 1)..(now + 1))
            ELSE {0, now - MaxRetAll - 1, now - 3, now - 1, now}
UntilGrid == IF FullGrid THEN {0} \cup ((now - MaxRetAll - 1)..(now + 1))
             ELSE {0, now - 2, now, now + 1}
WindowGrid == {w \in FromGrid \X UntilGrid : w[2] = 0 \/ w[1] <= w[2]}
SelGrid == 0..(LET S == {K(c) : c \in Configs} IN (CHOOSE x \in S : \A y \in S : y <= x) + 1)

Src == fs["s1"]
Dst == fs["d"]
SrcFiles == IF IsFile(fs["s2"]) THEN <<fs["s1"], fs["s2"]>> ELSE <<fs["s1"]>>

(***************************************************************************)
(* C08  copy                                                               *)
(***************************************************************************)
\* slots of the requested window of a selected archive, as seen by a fetch afterwards
CopyPostOK(src, dres, sel, from, until0, copyNaN) ==
  LET rs == ReadFile(src, sel, from, until0)
      rd == ReadFile(dres, sel, from, until0)
  IN \A a \in 1..K(src.cfg) :
       rs.ts[a].k # "none" =>
         /\ rd.ts[a].k # "none" /\ SameRange(rs.ts[a], rd.ts[a])
         /\ \A i \in 1..Len(rs.ts[a].vals) :
              IF ~IsNaN(rs.ts[a].vals[i]) THEN rd.ts[a].vals[i] = rs.ts[a].vals[i]
              ELSE copyNaN => IsNaN(rd.ts[a].vals[i])

C08 ==
  \A sel \in SelGrid, w \in WindowGrid, cn \in BOOLEAN :
    LET res == CopyOp(Src, Dst, sel, w[1], w[2], cn, ccfg)
    IN /\ IsFile(res.d)                                         \* created when absent, even with nothing to copy
       /\ (~IsFile(Dst)) => res.d.cfg = ccfg
       /\ res.k # "ok" => res.d = (IF IsFile(Dst) THEN Dst ELSE NewFile(ccfg))   \* failure writes nothing
       /\ (IsFile(Dst) /\ Src.cfg.layout # Dst.cfg.layout) => res.k = "err"
       /\ res.k = "ok" =>
            /\ CopyPostOK(Src, res.d, sel, w[1], w[2], cn)
            \* repeating the same copy changes nothing
            /\ CopyOp(Src, res.d, sel, w[1], w[2], cn, ccfg) = [k |-> "ok", d |-> res.d]
            \* diff over the same window is clean (NaN mode: only slots where the source has a value)
            /\ (cn => DiffOp(Src, res.d, sel, w[1], w[2]).k = "clean")

(***************************************************************************)
(* C09  diff                                                               *)
(***************************************************************************)
C09 ==
  \A sel \in SelGrid, w \in WindowGrid :
    LET res == DiffOp(Src, Dst, sel, w[1], w[2])
        rs == ReadFile(Src, sel, w[1], w[2])
        rd == ReadFile(Dst, sel, w[1], w[2])
    IN /\ DiffOp(Src, Src, sel, w[1], w[2]).k \in {"clean", "err"}          \* self-diff is clean
       /\ DiffOp(Dst, Src, sel, w[1], w[2]).k = res.k                      \* verdict symmetric
       /\ (rs.k = "ok" /\ rd.k = "ok" /\ rs.cfg.layout = rd.cfg.layout) =>
            /\ res.k \in {"clean", "diff"}
            /\ (res.k = "diff") <=>
                 \E a \in 1..K(rs.cfg) : rs.ts[a].k # "none" /\
                    \E i \in 1..Len(rs.ts[a].vals) : rs.ts[a].vals[i] # rd.ts[a].vals[i]
       /\ (rs.k = "ok" /\ rd.k = "notexist") => res.k = "diff"
       /\ (rs.k = "ok" /\ rd.k = "ok" /\ rs.cfg.layout # rd.cfg.layout) => res.k = "err"

\* one differing file anywhere in the list makes the run report a difference (C09)
GlobDiffLaw ==
  \A sel \in SelGrid, w \in WindowGrid :
    LET one == DiffOp(Src, Dst, sel, w[1], w[2])
        self == DiffOp(Src, Src, sel, w[1], w[2])
    IN (one.k = "diff" /\ self.k = "clean") =>
         /\ GlobDiffOp(<<<<Src, Dst>>, <<Src, Src>>>>, sel, w[1], w[2]).k = "diff"
         /\ GlobDiffOp(<<<<Src, Src>>, <<Src, Dst>>>>, sel, w[1], w[2]).k = "diff"
         /\ GlobDiffOp(<<<<Src, Src>>, <<Src, Dst>>, <<Src, Src>>>>, sel, w[1], w[2]).recs = one.recs

(***************************************************************************)
(* C10  sum                                                                *)
(***************************************************************************)
C10 ==
  \A sel \in SelGrid, w \in WindowGrid :
    LET res == SumOp(SrcFiles, sel, w[1], w[2])
        r1 == ReadFile(fs["s1"], sel, w[1], w[2])
    IN /\ SumOp(<<fs["s1"]>>, sel, w[1], w[2]) = r1                           \* a single file sums to itself
       /\ (Len(SrcFiles) = 2 /\ res.k = "ok") =>
            LET r2 == ReadFile(fs["s2"], sel, w[1], w[2])
            IN /\ SumOp(<<fs["s2"], fs["s1"]>>, sel, w[1], w[2]).ts = res.ts   \* order-independent
               /\ \A a \in 1..Len(res.ts) : res.ts[a].k # "none" =>
                    /\ SameRange(res.ts[a], r1.ts[a])
                    /\ \A i \in 1..Len(res.ts[a].vals) :
                         LET x == r1.ts[a].vals[i]
                             y == r2.ts[a].vals[i]
                         IN res.ts[a].vals[i] =
                              IF IsNaN(x) /\ IsNaN(y) THEN NaN
                              ELSE IF IsNaN(x) THEN y ELSE IF IsNaN(y) THEN x ELSE Num(x[1] + y[1])

(***************************************************************************)
(* C11  sum-copy / sum-diff                                                *)
(***************************************************************************)
C11 ==
  \A sel \in SelGrid, w \in WindowGrid :
    LET res == SumCopyOp(SrcFiles, Dst, sel, w[1], w[2], ccfg)
        sm == SumOp(SrcFiles, sel, w[1], w[2])
    IN /\ IsFile(res.d)
       /\ res.k = "ok" =>
            LET rd == ReadFile(res.d, sel, w[1], w[2])
            IN /\ \A a \in 1..Len(sm.ts) : sm.ts[a].k # "none" =>
                    rd.ts[a].k # "none" /\ rd.ts[a].vals = sm.ts[a].vals
               /\ SumDiffOp(SrcFiles, res.d, sel, w[1], w[2]).k = "clean"
               /\ SumCopyOp(SrcFiles, res.d, sel, w[1], w[2], ccfg) = [k |-> "ok", d |-> res.d]
       /\ LET sd == SumDiffOp(SrcFiles, Dst, sel, w[1], w[2])
              rd == ReadFile(Dst, sel, w[1], w[2])
          IN (sm.k = "ok" /\ rd.k = "ok" /\ sm.cfg.layout = rd.cfg.layout) =>
               ((sd.k = "diff") <=> \E a \in 1..Len(sm.ts) : sm.ts[a].k # "none" /\ sm.ts[a].vals # rd.ts[a].vals)

(***************************************************************************)
(* C18  view / view-raw cross law                                          *)
(***************************************************************************)
InRange(c, a, t, from, until0) == RawKeep(c, a, [t |-> t, v |-> NaN], from, until0)

C18 ==
  \A sel \in SelGrid, w \in WindowGrid :
    LET vw == ViewOp(Src, sel, w[1], w[2])
        raw == ViewRawOp(Src, sel, w[1], w[2], FALSE)
        srt == ViewRawOp(Src, sel, w[1], w[2], TRUE)
    IN vw.k = "ok" =>
         /\ raw.k = "ok"
         \* every non-NaN point shown by view whose time lies in the requested range appears in view-raw
         /\ \A i \in 1..Len(vw.recs) :
              (~IsNaN(vw.recs[i][3]) /\ InRange(Src.cfg, vw.recs[i][1], vw.recs[i][2], w[1], w[2])) =>
                 \E j \in 1..Len(raw.recs) : raw.recs[j] = vw.recs[i]
         \* sorting only reorders, stably, within an archive
         /\ Len(srt.recs) = Len(raw.recs)
         /\ \A i \in 1..(Len(srt.recs) - 1) :
              srt.recs[i][1] < srt.recs[i + 1][1] \/
              (srt.recs[i][1] = srt.recs[i + 1][1] /\ srt.recs[i][2] <= srt.recs[i + 1][2])


(***************************************************************************)
(* C16  commands fail loudly: outcome classes under environment faults     *)
(***************************************************************************)
Commands == {"copy", "diff", "sum", "sum-copy", "sum-diff", "view", "view-raw", "generate"}
Faults == {"none", "textout-unopenable", "textout-full", "source-missing", "source-corrupt", "dest-dir-readonly", "dest-corrupt"}
Writers == {"copy", "sum-copy", "generate"}
HasDest == {"copy", "sum-copy", "diff", "sum-diff", "generate"}

\* allowed outcome classes of a command whose arguments are otherwise fine.
\* "ok" always means: the effect (destination content / complete output) is observable.
FaultOutcome(c, f) ==
  CASE f = "none" -> {"ok", "diff"}
    [] f = "textout-unopenable" -> {"err"}
    [] f = "textout-full" ->                        \* every command writes at least one line; the write or the final flush fails
         IF c \in {"diff", "sum-diff"} THEN {"err", "diff"}   \* (a found difference is reported in preference to the write error)
         ELSE {"err"}
    [] f = "source-missing" ->
         (CASE c \in {"copy", "sum", "sum-copy", "view", "view-raw"} -> {"notexist"}
            [] c = "diff" -> {"diff"}                       \* a missing side is a reported difference
            [] c = "sum-diff" -> {"notexist", "ok"}          \* pattern without match / missing side reported
            [] c = "generate" -> {"ok"})
    [] f = "source-corrupt" -> IF c = "generate" THEN {"ok"} ELSE {"err"}
    [] f = "dest-dir-readonly" -> IF c \in Writers THEN {"err"}
                                  ELSE IF c \in HasDest THEN {"err", "ok", "diff"}   \* readers: the destination is unreadable or missing
                                  ELSE {"ok", "diff"}
    [] f = "dest-corrupt" -> IF c \in HasDest THEN {"err"} ELSE {"ok", "diff"}

\* no fault is answered by silent success where an effect was required, and never by a panic
C16Table ==
  \A c \in Commands, f \in Faults :
    /\ FaultOutcome(c, f) \subseteq {"ok", "diff", "err", "notexist"}
    /\ (f \in {"textout-unopenable", "textout-full"}) => "ok" \notin FaultOutcome(c, f)
    /\ (f \in {"dest-dir-readonly", "dest-corrupt"} /\ c \in Writers) => "ok" \notin FaultOutcome(c, f)

FaultRows == [c \in Commands |-> [f \in Faults |-> FaultOutcome(c, f)]]
ExportFaults == IF Export = "faults" THEN PrintT(ToJson([kind |-> "faults", table |-> FaultRows])) ELSE TRUE

(***************************************************************************)
(* C20  generate                                                           *)
(***************************************************************************)
\* the intervals archive a retains at clock n
Retained(c, a, n) == {AlignW(StepOf(c, a), n) - i * StepOf(c, a) : i \in 0..(NOf(c, a) - 1)}

\* value stored for interval I (classic placement first; linear search as a fallback so that the
\* predicate does not depend on placement)
ValAtC(c, a, ra, I) ==
  LET i == IF BaseOf(ra) = 0 THEN 1 ELSE SlotIdx(c, a, BaseOf(ra), I)
  IN IF ra[i].t = I THEN ra[i].v
     ELSE LET S == {j \in 1..Len(ra) : ra[j].t = I} IN IF S = {} THEN NaN ELSE ra[CHOOSE j \in S : TRUE].v

\* any ring generate may produce for (configuration, maximum, fill, clock)
GenerateOK(c, r, max, fill, n) ==
  IF ~fill THEN r = EmptyRing(c.layout)
  ELSE \A a \in 1..K(c) :
         /\ {r[a][i].t : i \in 1..NOf(c, a)} = Retained(c, a, n)            \* every slot of the retention, nothing else
         /\ \A i \in 1..NOf(c, a) :
              /\ ~IsNaN(r[a][i].v)
              /\ r[a][i].v[1] >= 0 /\ r[a][i].v[1] <= max * (StepOf(c, a) \div StepOf(c, 1))
         /\ a > 1 =>
              \A I \in Retained(c, a, n) :
                LET fin == {I + j * StepOf(c, a - 1) : j \in 0..((StepOf(c, a) \div StepOf(c, a - 1)) - 1)}
                IN fin \subseteq Retained(c, a - 1, n) =>
                     ValAtC(c, a, r[a], I) = Num(SumVals([j \in 1..(StepOf(c, a) \div StepOf(c, a - 1)) |->
                                                     ValAtC(c, a - 1, r[a - 1], I + (j - 1) * StepOf(c, a - 1))]))

(***************************************************************************)
(* Export: every reachable tree with the expected outcome of a sample of    *)
(* commands; the harness materialises the tree and runs the real commands.  *)
(***************************************************************************)
FileRec(f) == IF IsFile(f) THEN [cfg |-> f.cfg, ring |-> f.ring] ELSE [absent |-> TRUE]

ExportArgs == {<<sel, w>> \in SelGrid \X WindowGrid : TRUE}

PostRecs(f, sel, w) == LET r == ReadFile(f, sel, w[1], w[2]) IN
                       IF r.k = "ok" THEN AllSeriesRecs(r.ts, 1) ELSE <<>>

CmdRow(sel, w, cn) ==
  [sel |-> sel, f |-> w[1], u |-> w[2], cn |-> cn,
   copy |-> LET r == CopyOp(Src, Dst, sel, w[1], w[2], cn, ccfg)
            IN [k |-> r.k, d |-> FileRec(r.d), post |-> PostRecs(r.d, sel, w), srcpost |-> PostRecs(Src, sel, w)],
   diff |-> DiffOp(Src, Dst, sel, w[1], w[2]),
   sum |-> LET r == SumOp(SrcFiles, sel, w[1], w[2]) IN
           IF r.k = "ok" THEN [k |-> "ok", recs |-> AllSeriesRecs(r.ts, 1)] ELSE [k |-> r.k, recs |-> <<>>],
   sumcopy |-> LET r == SumCopyOp(SrcFiles, Dst, sel, w[1], w[2], ccfg)
               IN [k |-> r.k, d |-> FileRec(r.d), post |-> PostRecs(r.d, sel, w)],
   sumdiff |-> SumDiffOp(SrcFiles, Dst, sel, w[1], w[2]),
   view |-> ViewOp(Src, sel, w[1], w[2]),
   raw |-> ViewRawOp(Src, sel, w[1], w[2], FALSE),
   rawsorted |-> ViewRawOp(Src, sel, w[1], w[2], TRUE)]

\* ExportN rows per state, drawn pseudo-randomly from the grid (TLC's -seed)
CONSTANT ExportN
ExportTree ==
  IF Export = "trees"
  THEN PrintT(ToJson([kind |-> "tree", now |-> now, ccfg |-> ccfg,
                      s1 |-> FileRec(fs["s1"]), s2 |-> FileRec(fs["s2"]), d |-> FileRec(fs["d"]),
                      rows |-> [i \in 1..ExportN |->
                                  LET a == RandomElement(ExportArgs) IN CmdRow(a[1], a[2], RandomElement(BOOLEAN))]]))
  ELSE TRUE
=============================================================================
