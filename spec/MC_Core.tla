------------------------------ MODULE MC_Core ------------------------------
EXTENDS WhisperCore

Lay(s) == [i \in 1..Len(s) |-> [step |-> s[i][1], n |-> s[i][2]]]

\* 1s:2s,2s:4s  - ratio equal to the finer point count, rings of 2
L_2_2 == Lay(<<<<1, 2>>, <<2, 2>>>>)
\* 1s:3s,3s:6s
L_3_2 == Lay(<<<<1, 3>>, <<3, 2>>>>)
\* 1s:2s,2s:6s  - coarser ring of 3
L_2_3 == Lay(<<<<1, 2>>, <<2, 3>>>>)
\* 1s:3s,2s:4s  - coarser ring barely longer than the finer one
L_3_2b == Lay(<<<<1, 3>>, <<2, 2>>>>)
\* single archive, ring of 1 / 2 / 3
L_1 == Lay(<<<<1, 1>>>>)
L_2 == Lay(<<<<1, 2>>>>)
L_3 == Lay(<<<<2, 3>>>>)
\* three levels
\* finer step 2: unaligned clocks, a stale point sharing the ring class of a fresh one
L_22_42 == Lay(<<<<2, 2>>, <<4, 2>>>>)
L_23_62 == Lay(<<<<2, 3>>, <<6, 2>>>>)
L_2_2_2 == Lay(<<<<1, 2>>, <<2, 2>>, <<4, 2>>>>)

MCLayoutsQuick == {L_2_2}
MCLayoutsA == {L_2_2, L_3_2b}
MCLayoutsB == {L_2_3, L_3_2}
MCLayoutsC == {L_1, L_2, L_3}
L_5_2 == Lay(<<<<1, 5>>, <<5, 2>>>>)
MCLayoutsF == {L_3_2, L_5_2}
MCLayoutsG == {L_3_2}
\* coarser retention (8) shorter than finer retention (6) + coarser step (4): a covered coarse interval may start at now - retention
L_6_42 == Lay(<<<<1, 6>>, <<4, 2>>>>)
MCLayoutsH == {L_6_42}
XffThirds == {<<1, 3>>, <<2, 3>>}
XffFifths == {<<1, 5>>, <<3, 5>>, <<1, 3>>, <<2, 3>>}
MCLayouts3 == {L_2_2_2}
MCLayoutsD == {L_22_42}
MCLayoutsE == {L_23_62}
Ticks12J == {1, 2, 0}
Ticks1J == {1, 0}
Ticks1 == {1}
Ticks12 == {1, 2}
MethodSum == {"sum"}
MethodLast == {"last"}
MethodAvg == {"average"}
Vals12 == {12, -12}
Vals4 == {4, -4}

XffSet == {<<0, 1>>, <<1, 2>>, <<1, 1>>}
XffOne == {<<1, 2>>}
XffZero == {<<0, 1>>}
MethodsAll == {"average", "sum", "last", "max", "min", "first"}
MethodsQuick == {"sum", "last"}
Vals2 == {-4, 12}
Vals3 == {-12, 36}
Vals1 == {12}
=============================================================================
