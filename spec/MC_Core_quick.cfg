SPECIFICATION Spec
CONSTANTS
  Quirks = {}
  Layouts <- MCLayoutsQuick
  Methods <- MethodsQuick
  Xffs <- XffOne
  T0 = 100
  Horizon = 3
  Ticks <- Ticks12J
  Vals <- Vals12
  ValUnit = 12
  MaxBatch = 2
  ValMode = "tagged"
  WithSync = FALSE
  Export = "none"
VIEW View
INVARIANTS RingInv C01 C04
PROPERTIES
  PC03Single PC03Batch PWriteFrame PC02Post PNoInvented PC05
CHECK_DEADLOCK FALSE
