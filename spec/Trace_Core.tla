----------------------------- MODULE Trace_Core -----------------------------
(***************************************************************************)
(* code -> spec: validates ndjson traces recorded from the real library    *)
(* (harness `wverif drive-core`) against the operators of WhisperOps.      *)
(*                                                                         *)
(* Every line is one public call with its arguments, its result and the    *)
(* SPARSE projected state of the live handle after the call (and, for C05, *)
(* the independently parsed bytes of the file).  The step for a line is    *)
(* enabled iff the observation is what the specification allows IN THE     *)
(* PROJECTION OF PROPERTY `Prop` (DESIGN 3.1a); the specification state    *)
(* then continues from the LOGGED state, so a divergence is reported once, *)
(* at the line where it arises.  Many traces are concatenated; a "create"  *)
(* line resets the state (TraceReset).                                     *)
(***************************************************************************)
EXTENDS WhisperOps, Json, IOUtils, SequencesExt

CONSTANT Prop      \* "C01" | "C02" | "C03" | "C04" | "C05" | "ALL"

Trace == ndJsonDeserialize(IOEnv.TRACE_FILE)

VARIABLES l,        \* next line to consume
          cfg, ring,\* logged state of the live handle
          durable,  \* logged handle state at its last Sync (what the disk must hold)
          occ,      \* ghost: archive -> (ring class -> last pair written BY NAME to that archive)
          pure      \* ghost: archives whose content so far stems from by-name writes only

vars == <<l, cfg, ring, durable, occ, pure>>

Ln == Trace[l]

\* sparse ring [[idx, t, v], ...] per archive -> full physical ring
Full(c, sp) ==
  [a \in 1..K(c) |->
     LET ents == sp[a]
         at(i) == {j \in 1..Len(ents) : ents[j][1] = i}
     IN [i \in 1..NOf(c, a) |->
           IF at(i) = {} THEN Empty
           ELSE LET e == ents[CHOOSE j \in at(i) : TRUE] IN [t |-> e[2], v |-> e[3]]]]

LayOf(j) == [i \in 1..Len(j.layout) |-> [step |-> j.layout[i].step, n |-> j.layout[i].n]]
CfgOf(j) == [layout |-> LayOf(j), method |-> j.method, xff |-> <<j.xff[1], j.xff[2]>>]

EmptyOccT(c) == [a \in 1..K(c) |-> [cl \in 0..(NOf(c, a) - 1) |-> Empty]]

Init == /\ l = 1
        /\ cfg = [layout |-> <<[step |-> 1, n |-> 1]>>, method |-> "sum", xff |-> <<0, 1>>]
        /\ ring = EmptyRing(cfg.layout)
        /\ durable = ring
        /\ occ = EmptyOccT(cfg)
        /\ pure = {}

Is(e) == l <= Len(Trace) /\ Ln.ev = e /\ l' = l + 1

P(x) == Prop = x \/ Prop = "ALL"

\* a new trace starts: file created (and synced) or materialised from `post`
Create ==
  /\ Is("create")
  \* C06: the header bytes are the classic ones for this configuration (either writer, either reader) and every
  \* stored interval sits at its classic position relative to the first slot
  /\ P("C06") /\ "hdr_ok" \in DOMAIN Ln => Ln.hdr_ok
  /\ P("C06") /\ "placement_ok" \in DOMAIN Ln => Ln.placement_ok
  /\ cfg' = CfgOf(Ln.cfg)
  /\ ring' = Full(cfg', Ln.post)
  /\ durable' = ring'
  /\ occ' = EmptyOccT(cfg')
  /\ pure' = IF \A a \in 1..K(cfg') : BaseOf(ring'[a]) = 0 THEN 1..K(cfg') ELSE {}

PtsOf(j) == [i \in 1..Len(j) |-> [t |-> j[i].t, v |-> j[i].v]]

\* named-archive write whose points are all inside the archive's retention, not in the
\* future, and fall into pairwise different slots (same-slot resolution is C03's)
CleanNamed(sel, pts, now) ==
  /\ sel # 0
  /\ \A i \in 1..Len(pts) : pts[i].t <= now /\ pts[i].t > now - RetOf(cfg, sel)
  /\ \A i, j \in 1..Len(pts) : i # j => AlignW(StepOf(cfg, sel), pts[i].t) # AlignW(StepOf(cfg, sel), pts[j].t)
  \* ... and into pairwise different ring slots: with a clock that is not aligned to the step the retention touches N+1
  \* intervals, so the oldest and the newest point of one batch can be exactly one lap apart (the later interval wins, in
  \* time order, whatever the input order: that resolution is checked on the ring itself, not through this ghost)
  /\ \A i, j \in 1..Len(pts) : i # j =>
        ClassOf(cfg, sel, AlignW(StepOf(cfg, sel), pts[i].t)) # ClassOf(cfg, sel, AlignW(StepOf(cfg, sel), pts[j].t))

\* a by-name write whose points fall into pairwise different intervals: its outcome on the named archive is a matter of
\* ring storage alone (two intervals one lap apart: the later one replaces the earlier; a single point older than the named
\* archive's retention still takes its slot) - the whole archive is compared.  Several points in ONE interval are C03's.
DistinctIntervals(sel, pts) ==
  /\ sel # 0
  /\ \A i, j \in 1..Len(pts) : i # j => AlignW(StepOf(cfg, sel), pts[i].t) # AlignW(StepOf(cfg, sel), pts[j].t)

\* points of a by-name batch that are alone in their ring slot (no other point of the batch - whatever its age - maps to
\* the same slot), inside the archive's retention and not in the future: whatever else the batch contains (duplicates in
\* other intervals, stale points, more points than the ring has slots), afterwards the slot holds exactly that point
AloneIn(sel, pts, now) ==
  {i \in 1..Len(pts) :
     /\ pts[i].t <= now /\ pts[i].t > now - RetOf(cfg, sel)
     /\ \A j \in 1..Len(pts) : j # i =>
           ClassOf(cfg, sel, AlignW(StepOf(cfg, sel), pts[j].t)) # ClassOf(cfg, sel, AlignW(StepOf(cfg, sel), pts[i].t))}

RECURSIVE ApplyNamed(_, _, _)
ApplyNamed(o, a, pts) ==
  IF pts = <<>> THEN o
  ELSE LET I == AlignW(StepOf(cfg, a), Head(pts).t)
       IN ApplyNamed([o EXCEPT ![a] = [@ EXCEPT ![ClassOf(cfg, a, I)] = [t |-> I, v |-> Head(pts).v]]], a, Tail(pts))

WriteStep(name, sel, pts, now, expected, post) ==
  LET obs == Full(cfg, post)
      spec == expected.ring
  IN /\ P("C01") /\ (CleanNamed(sel, pts, now) \/ DistinctIntervals(sel, pts)) => Content(obs[sel]) = Content(spec[sel])
     /\ P("C01") /\ sel # 0 =>
          \A i \in AloneIn(sel, pts, now) :
             \E k \in 1..NOf(cfg, sel) : obs[sel][k] = [t |-> AlignW(StepOf(cfg, sel), pts[i].t), v |-> pts[i].v]
     /\ P("C02") /\ sel # 0 => \A b \in (sel + 1)..K(cfg) : Content(obs[b]) = Content(spec[b])
     /\ P("C03") => LET a == IF sel = 0 THEN 1 ELSE sel IN Content(obs[a]) = Content(spec[a])
     /\ ring' = obs
     /\ occ' = IF CleanNamed(sel, pts, now) THEN ApplyNamed(occ, sel, pts) ELSE occ
     /\ pure' = IF CleanNamed(sel, pts, now) THEN pure \ ((sel + 1)..K(cfg)) ELSE {}
     /\ UNCHANGED <<cfg, durable>>

Update ==
  /\ Is("update")
  /\ LET p == [t |-> Ln.p.t, v |-> Ln.p.v]
         res == UpdateOne(cfg, ring, Ln.now, Ln.sel, p)
     IN /\ P("C03") => Ln.ok = res.ok
        /\ IF Ln.ok = res.ok
           THEN WriteStep("update", Ln.sel, IF res.ok THEN <<p>> ELSE <<>>, Ln.now, res.st, Ln.post)
           ELSE /\ ring' = Full(cfg, Ln.post) /\ pure' = {} /\ UNCHANGED <<cfg, durable, occ>>

Many ==
  /\ Is("many")
  /\ LET pts == PtsOf(Ln.pts)
     IN WriteStep("many", Ln.sel, pts, Ln.now, UpdateBatch(cfg, ring, Ln.now, Ln.sel, pts), Ln.post)

\* res = <<kind>> or <<"ts", from, until, step, vals>>
ResShape(r) == IF r[1] = "ts" THEN [k |-> "ts", from |-> r[2], until |-> r[3], step |-> r[4], cnt |-> Len(r[5])]
               ELSE [k |-> r[1]]
DropArch(s) == IF s.k = "ts" THEN [k |-> "ts", from |-> s.from, until |-> s.until, step |-> s.step, cnt |-> s.cnt] ELSE s

\* a fetch on the live handle (h = 1) or on a second handle opened on the file (h = 2)
FetchEv ==
  /\ Is("fetch")
  /\ LET r == IF Ln.h = 2 THEN durable ELSE ring
         spec == Fetch(cfg, r, Ln.now, Ln.a, Ln.f, Ln.u)
         shapeOK == ResShape(Ln.res) = DropArch(FetchShape(cfg, Ln.now, Ln.a, Ln.f, Ln.u))
     IN /\ (P("C04") \/ P("C17")) => shapeOK
        /\ P("C17") /\ spec.k = "ts" => Ln.res[5] = spec.vals
        \* C06: both readers (1 = whispertool, 3 = the reference) read the same bytes as the specification does
        /\ P("C06") => shapeOK /\ (spec.k = "ts" => Ln.res[5] = spec.vals)
        \* values against the observed raw state
        /\ (P("C01") \/ (P("C05") /\ Ln.h = 2)) /\ shapeOK /\ spec.k = "ts" => Ln.res[5] = spec.vals
        \* values against the history of by-name writes (pure archives only)
        /\ P("C01") /\ shapeOK /\ spec.k = "ts" /\ Ln.h = 1 /\ spec.arch \in pure =>
             \A i \in 1..Len(spec.vals) :
               LET I == spec.from + (i - 1) * spec.step
                   o == occ[spec.arch][ClassOf(cfg, spec.arch, I)]
               IN Ln.res[5][i] = IF o.t = I THEN o.v ELSE NaN
  /\ UNCHANGED <<cfg, ring, durable, occ, pure>>

\* every line carries the independently parsed bytes of the file: they change only in Sync
RECURSIVE SumPts(_)
SumPts(ly) == IF ly = <<>> THEN 0 ELSE Head(ly).n + SumPts(Tail(ly))
FileLen(c) == 16 + 12 * K(c) + 12 * SumPts(c.layout)
\* the bytes on disk are the last synced state, and the file's length never changes after creation
DiskOK(dur) == P("C05") /\ "disk" \in DOMAIN Ln =>
                 "disk_error" \notin DOMAIN Ln /\ Full(cfg', Ln.disk) = dur /\ Ln.len = FileLen(cfg')

Sync ==
  /\ Is("sync")
  /\ durable' = ring
  /\ UNCHANGED <<cfg, ring, occ, pure>>

\* handle dropped without Sync, file reopened: exactly the last synced state
Abandon ==
  /\ Is("abandon")
  /\ P("C05") => Full(cfg, Ln.post) = durable
  /\ ring' = Full(cfg, Ln.post)
  /\ pure' = {}
  /\ UNCHANGED <<cfg, durable, occ>>

\* Create fixes the length at once, but the header and every point reach the disk only with the first Sync:
\* a handle from Create that is dropped before its first Sync leaves an all-zero file of the final length
NewFileAbandoned ==
  /\ Is("newfile-abandoned")
  /\ P("C05") => Ln.zero /\ Ln.len = Ln.expected_len
  /\ UNCHANGED <<cfg, ring, durable, occ, pure>>

Next ==
  /\ \/ Create \/ Update \/ Many \/ FetchEv \/ Sync \/ Abandon \/ NewFileAbandoned
  /\ DiskOK(durable')

Spec == Init /\ [][Next]_vars

\* acceptance: all lines consumed.  The depth reached is printed so that the
\* harness can point at the first rejected line.
Accepted ==
  /\ PrintT(<<"TRACE_DEPTH", TLCGet("stats").diameter - 1, Len(Trace)>>)
  /\ TLCGet("stats").diameter - 1 = Len(Trace)
=============================================================================
