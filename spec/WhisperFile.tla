----------------------------- MODULE WhisperFile -----------------------------
(***************************************************************************)
(* One .wsp file shared by several processes (or goroutines), each owning   *)
(* at most one handle: descriptor, advisory exclusive lock, lazily filled   *)
(* page cache with write-back, Sync, Close (which does NOT flush), crash    *)
(* anywhere.  Properties C13 (exclusive access, lock lifetime), the page    *)
(* level of C05 (disk changes only while flushing) and C17 (concurrent      *)
(* fetch threads on one handle see what a sequential fetch sees).           *)
(*                                                                         *)
(* One action per critical section of whisper.go: OpenFd (os.OpenFile),     *)
(* Acquire (flock LOCK_EX - enabled only when the lock is free: it blocks), *)
(* ReadHeader (ok / failing -> cleanup closes the descriptor), ReadPage     *)
(* (lazy page read under the buffer's mutex - the atomic step of a fetch),  *)
(* WStamp (WriteAt: pre-read, modify, mark dirty), FlushPage (one pwrite    *)
(* per dirty page, ascending), Close, Crash.                                *)
(* Quirks: "NoFlock" (lock not taken), "D6" (failed Open keeps descriptor   *)
(* and lock until a finalizer runs), "CloseFlushes", "CreateNoLock".        *)
(*                                                                         *)
(* Creation is part of the model: Create is NOT atomic.  CreateFd makes the *)
(* file visible (O_CREAT|O_EXCL) before the creator holds the lock; the     *)
(* header it writes lives in the page cache until the creator's first Sync, *)
(* so an Open that gets the lock before that Sync finds no valid header and *)
(* must fail - and leave the file unlocked.  `dmg` names the way the file   *)
(* on disk is unusable ("empty": created, not yet synced; the other kinds   *)
(* are damage done / repaired from outside while nobody holds the file).    *)
(***************************************************************************)
EXTENDS Integers, FiniteSets, TLC
CONSTANTS Writers, Readers, NPages, MaxSess, Threads, FQuirks
Damages == {"method", "short", "count"}     \* invalid aggregation method / file one byte short / archive count 0
Procs == Writers \cup Readers
Pages == 0..(NPages - 1)
Unread == -1
VARIABLES disk,     \* page -> generation stamped on it
          lock,     \* "free" or the process holding the flock
          pc,       \* process -> "idle" | "locking" | "hdr" | "open" | "syncing" | "synced" | "leaked"
          cache,    \* process -> page -> content or Unread
          dirty,    \* process -> set of dirty pages
          val,      \* writer -> generation it is about to stamp
          sess,     \* process -> sessions started
          seen,     \* reader -> thread -> set of page contents its fetch observed
          commits,  \* ghost: number of completed (synced) writer sessions
          hdrOk,    \* FALSE: the header on disk is unreadable/invalid (Open must fail)
          exists,   \* the path exists
          mode,     \* process -> "open" | "create": how its current handle was obtained
          dmg       \* "none" when hdrOk, else why the file is unusable: "absent" | "empty" | a member of Damages
aux == <<exists, mode, dmg>>
vars == <<disk, lock, pc, cache, dirty, val, sess, seen, commits, hdrOk, exists, mode, dmg>>

Init == /\ disk = [pg \in Pages |-> 0]
        /\ lock = "free"
        /\ pc = [p \in Procs |-> "idle"]
        /\ cache = [p \in Procs |-> [pg \in Pages |-> Unread]]
        /\ dirty = [p \in Procs |-> {}]
        /\ val = [p \in Procs |-> Unread]
        /\ sess = [p \in Procs |-> 0]
        /\ seen = [p \in Procs |-> [t \in Threads |-> {}]]
        /\ commits = 0
        /\ exists \in BOOLEAN
        /\ mode = [p \in Procs |-> "open"]
        /\ \/ exists /\ hdrOk = TRUE /\ dmg = "none"
           \/ exists /\ hdrOk = FALSE /\ dmg \in Damages
           \/ ~exists /\ hdrOk = FALSE /\ dmg = "absent"

OpenFd(p) == /\ pc[p] = "idle" /\ sess[p] < MaxSess /\ exists
             /\ pc' = [pc EXCEPT ![p] = "locking"]
             /\ sess' = [sess EXCEPT ![p] = @ + 1]
             /\ seen' = [seen EXCEPT ![p] = [t \in Threads |-> {}]]
             /\ mode' = [mode EXCEPT ![p] = "open"]
             /\ UNCHANGED <<disk, lock, cache, dirty, val, commits, hdrOk, exists, dmg>>

\* os.OpenFile(O_CREATE|O_EXCL): the (empty) file is there before its creator holds the lock
CreateFd(p) == /\ p \in Writers /\ pc[p] = "idle" /\ sess[p] < MaxSess /\ ~exists
               /\ exists' = TRUE /\ dmg' = "empty" /\ hdrOk' = FALSE
               /\ pc' = [pc EXCEPT ![p] = "locking"]
               /\ sess' = [sess EXCEPT ![p] = @ + 1]
               /\ mode' = [mode EXCEPT ![p] = "create"]
               /\ UNCHANGED <<disk, lock, cache, dirty, val, commits, seen>>

NoLock(p) == "NoFlock" \in FQuirks \/ ("CreateNoLock" \in FQuirks /\ mode[p] = "create")
Acquire(p) == /\ pc[p] = "locking"
              /\ \/ lock = "free" \/ NoLock(p)
              /\ lock' = IF NoLock(p) THEN lock ELSE p
              /\ pc' = [pc EXCEPT ![p] = "hdr"]
              /\ UNCHANGED <<disk, cache, dirty, val, sess, seen, commits, hdrOk, aux>>

\* the header lives on page 0; reading it caches page 0.  A failing read must close the descriptor.
ReadHeader(p) == /\ pc[p] = "hdr" /\ mode[p] = "open"
                 /\ IF hdrOk
                    THEN /\ cache' = [cache EXCEPT ![p][0] = disk[0]]
                         /\ pc' = [pc EXCEPT ![p] = "open"] /\ lock' = lock
                    ELSE /\ cache' = cache
                         /\ IF "D6" \in FQuirks
                            THEN pc' = [pc EXCEPT ![p] = "leaked"] /\ lock' = lock
                            ELSE pc' = [pc EXCEPT ![p] = "idle"] /\ lock' = IF lock = p THEN "free" ELSE lock
                 /\ UNCHANGED <<disk, dirty, val, sess, seen, commits, hdrOk, aux>>

\* Create after the lock: Truncate to the full length (zero pages), header written into the page cache (page 0 dirty)
InitFile(p) == /\ pc[p] = "hdr" /\ mode[p] = "create"
               /\ cache' = [cache EXCEPT ![p] = [pg \in Pages |-> 0]]
               /\ dirty' = [dirty EXCEPT ![p] = {0}]
               /\ pc' = [pc EXCEPT ![p] = "open"]
               /\ UNCHANGED <<disk, lock, val, sess, seen, commits, hdrOk, aux>>

\* (quirk D6 only) the garbage collector finalizes the leaked descriptor some time later
Finalize(p) == /\ pc[p] = "leaked"
               /\ pc' = [pc EXCEPT ![p] = "idle"]
               /\ lock' = IF lock = p THEN "free" ELSE lock
               /\ UNCHANGED <<disk, cache, dirty, val, sess, seen, commits, hdrOk, aux>>

\* somebody damages / repairs the file while nobody holds it (a file left empty by its creator is repaired likewise)
FlipHeader == /\ lock = "free" /\ exists /\ \A p \in Procs : pc[p] \in {"idle", "locking"}
              /\ \A p \in Procs : ~(mode[p] = "create" /\ pc[p] = "locking")   \* not in the middle of a creation
              /\ hdrOk' = ~hdrOk
              /\ IF hdrOk THEN dmg' \in Damages ELSE dmg' = "none"
              /\ UNCHANGED <<disk, lock, pc, cache, dirty, val, sess, seen, commits, exists, mode>>

ReadPage(p, pg) == /\ pc[p] = "open"
                   /\ cache[p][pg] = Unread
                   /\ cache' = [cache EXCEPT ![p][pg] = disk[pg]]
                   /\ UNCHANGED <<disk, lock, pc, dirty, val, sess, seen, commits, hdrOk, aux>>

\* a fetch thread of a reader observes a page (which must be cached: ReadPage is the lazy fill)
Observe(p, t, pg) == /\ p \in Readers /\ pc[p] = "open"
                     /\ cache[p][pg] # Unread
                     /\ seen' = [seen EXCEPT ![p][t] = @ \cup {cache[p][pg]}]
                     /\ UNCHANGED <<disk, lock, pc, cache, dirty, val, sess, commits, hdrOk, aux>>

\* writer: read the generation on page 0 (cached by the header read), then stamp every page
WLoad(p) == /\ p \in Writers /\ pc[p] = "open" /\ val[p] = Unread
            /\ val' = [val EXCEPT ![p] = cache[p][0] + 1]
            /\ UNCHANGED <<disk, lock, pc, cache, dirty, sess, seen, commits, hdrOk, aux>>

WStamp(p, pg) == /\ p \in Writers /\ pc[p] = "open" /\ val[p] # Unread
                 /\ cache[p][pg] # Unread      \* WriteAt pre-reads the page
                 /\ cache[p][pg] # val[p]
                 /\ cache' = [cache EXCEPT ![p][pg] = val[p]]
                 /\ dirty' = [dirty EXCEPT ![p] = @ \cup {pg}]
                 /\ UNCHANGED <<disk, lock, pc, val, sess, seen, commits, hdrOk, aux>>

SyncStart(p) == /\ p \in Writers /\ pc[p] = "open" /\ val[p] # Unread
                /\ \A pg \in Pages : cache[p][pg] = val[p]
                /\ pc' = [pc EXCEPT ![p] = "syncing"]
                /\ UNCHANGED <<disk, lock, cache, dirty, val, sess, seen, commits, hdrOk, aux>>

FlushPage(p, pg) == /\ pc[p] = "syncing" /\ pg \in dirty[p]
                    /\ \A q \in dirty[p] : pg <= q
                    /\ disk' = [disk EXCEPT ![pg] = cache[p][pg]]
                    /\ dirty' = [dirty EXCEPT ![p] = @ \ {pg}]
                    \* the creator's first flush of page 0 is what makes the file openable
                    /\ IF pg = 0 /\ mode[p] = "create" /\ dmg = "empty"
                       THEN hdrOk' = TRUE /\ dmg' = "none"
                       ELSE UNCHANGED <<hdrOk, dmg>>
                    /\ UNCHANGED <<lock, pc, cache, val, sess, seen, commits, exists, mode>>

SyncDone(p) == /\ pc[p] = "syncing" /\ dirty[p] = {}
               /\ pc' = [pc EXCEPT ![p] = "synced"]
               /\ commits' = commits + 1
               /\ UNCHANGED <<disk, lock, cache, dirty, val, sess, seen, hdrOk, aux>>

Close(p) == /\ pc[p] \in {"open", "synced"}
            /\ (p \in Readers => \A t \in Threads : seen[p][t] # {})
            /\ pc' = [pc EXCEPT ![p] = "idle"]
            /\ lock' = IF lock = p THEN "free" ELSE lock
            /\ cache' = [cache EXCEPT ![p] = [pg \in Pages |-> Unread]]
            /\ dirty' = [dirty EXCEPT ![p] = {}]
            /\ val' = [val EXCEPT ![p] = Unread]
            /\ IF "CloseFlushes" \in FQuirks
               THEN disk' = [pg \in Pages |-> IF pg \in dirty[p] THEN cache[p][pg] ELSE disk[pg]]
               ELSE disk' = disk
            /\ UNCHANGED <<sess, seen, commits, hdrOk, aux>>

\* a process dies (or drops its handle) anywhere while it has a descriptor, except mid-Sync
Crash(p) == /\ pc[p] \in {"locking", "hdr", "open", "synced"}
            /\ pc' = [pc EXCEPT ![p] = "idle"]
            /\ lock' = IF lock = p THEN "free" ELSE lock
            /\ cache' = [cache EXCEPT ![p] = [pg \in Pages |-> Unread]]
            /\ dirty' = [dirty EXCEPT ![p] = {}]
            /\ val' = [val EXCEPT ![p] = Unread]
            /\ seen' = [seen EXCEPT ![p] = [t \in Threads |-> {}]]
            /\ UNCHANGED <<disk, sess, commits, hdrOk, aux>>

Next == \/ \E p \in Procs :
             \/ OpenFd(p) \/ CreateFd(p) \/ Acquire(p) \/ ReadHeader(p) \/ InitFile(p) \/ Finalize(p)
             \/ \E pg \in Pages : ReadPage(p, pg) \/ WStamp(p, pg) \/ FlushPage(p, pg)
             \/ \E pg \in Pages, t \in Threads : Observe(p, t, pg)
             \/ WLoad(p) \/ SyncStart(p) \/ SyncDone(p) \/ Close(p) \/ Crash(p)
        \/ FlipHeader

Spec == Init /\ [][Next]_vars
\* every process keeps taking its own (non-crash) steps; the flock is granted when free
ProcStep(p) == \/ Acquire(p) \/ ReadHeader(p) \/ InitFile(p) \/ Finalize(p) \/ WLoad(p) \/ SyncStart(p) \/ SyncDone(p) \/ Close(p)
               \/ \E pg \in Pages : ReadPage(p, pg) \/ WStamp(p, pg) \/ FlushPage(p, pg)
               \/ \E pg \in Pages, t \in Threads : Observe(p, t, pg) /\ seen[p][t] = {}
FairSpec == Spec /\ \A p \in Procs : WF_vars(ProcStep(p))

HasHandle(p) == pc[p] \in {"hdr", "open", "syncing", "synced"}
\* C13: at most one handle at a time
Mutex == \A p, q \in Procs : (HasHandle(p) /\ HasHandle(q)) => p = q
\* C13: the lock lives exactly as long as a handle (a failed Open leaves it free)
LockLifetime == \A p \in Procs : lock = p => HasHandle(p)
\* C13 / C17: every fetch thread of a reader observed one generation only - the file as of a session boundary
ReaderUniform == \A p \in Readers : \A t \in Threads : Cardinality(seen[p][t]) <= 1
\* C17: concurrent fetch threads on one handle see exactly what a sequential fetch sees (the disk content)
ThreadsAgree == \A p \in Readers : pc[p] = "open" =>
                   \A t \in Threads : \A x \in seen[p][t] : \E pg \in Pages : disk[pg] = x
\* C13: no lost update - outside a Sync every page carries the number of completed sessions
NoLostUpdate == (\A p \in Procs : pc[p] # "syncing") => \A pg \in Pages : disk[pg] = commits
\* C05 (page level): the disk changes only while a Sync flushes
DiskOnlyInFlush == [][disk' # disk => \E p \in Procs, pg \in Pages : FlushPage(p, pg)]_vars
\* C05 (page level): right after a Sync every cached page equals the disk (the handle's view is what any other
\* handle would read); a crash / dropped handle never touches the disk
SyncedEqualsView == \A p \in Procs : pc[p] = "synced" => \A pg \in Pages : cache[p][pg] # Unread => cache[p][pg] = disk[pg]
CrashLeavesDisk == [][(\E p \in Procs : Crash(p)) => disk' = disk]_vars
\* a clean (non-dirty) cached page is never stale while the lock is held: what a handle reads is the disk
CleanPagesFresh == \A p \in Procs : (lock = p /\ pc[p] \in {"open", "synced"}) =>
                     \A pg \in Pages : (cache[p][pg] # Unread /\ pg \notin dirty[p]) => cache[p][pg] = disk[pg]
\* C13: a blocked Open eventually returns once the holder closes
OpenReturns == \A p \in Procs : (pc[p] = "locking") ~> (pc[p] # "locking")
=============================================================================
