------------------------------ MODULE Trace_File ------------------------------
(***************************************************************************)
(* code -> spec for C13: the event log of free-running sessions (goroutines *)
(* or separate processes) on one file, in the order the events were         *)
(* appended to a shared O_APPEND log.  "opendone" is logged AFTER Open      *)
(* returned and "closestart" BEFORE Close is called, so the logged interval *)
(* is inside the interval the handle really exists: if the specification's  *)
(* Acquire (enabled only when the lock is free) cannot explain the log, two *)
(* handles coexisted.  Each logged event is the composition of the          *)
(* WhisperFile actions of that session phase.                               *)
(***************************************************************************)
EXTENDS WhisperFile, Json, IOUtils, Sequences

Trace == ndJsonDeserialize(IOEnv.TRACE_FILE)
VARIABLE l, win
tvars == <<l, win, disk, lock, pc, cache, dirty, val, sess, seen, commits, hdrOk, exists, mode, dmg>>
Ln == Trace[l]

\* a new file / a new run: everything idle, generation 0
\* "nofile": the round starts without a file; the first session creates it.  Create is not atomic: the file
\* is visible (empty) from the moment the creator's OpenFd made it until the creator holds the lock, and an Open
\* that wins the lock in that window finds no header, fails and releases the lock again (hdrOk = FALSE).
Reset == /\ Ln.ev = "reset"
         /\ disk' = [pg \in Pages |-> 0] /\ lock' = "free" /\ pc' = [p \in Procs |-> "idle"] /\ commits' = 0
         /\ hdrOk' = ("nofile" \notin DOMAIN Ln)
         /\ UNCHANGED <<cache, dirty, val, sess, seen, aux>>

\* OpenFd . Acquire . ReadHeader(ok)
OpenDone(p) == /\ Ln.ev = "opendone"
               /\ pc[p] = "idle" /\ lock = "free"
               /\ hdrOk \/ "created" \in DOMAIN Ln          \* an Open succeeds only on an initialised file; Create initialises it
               /\ lock' = p /\ pc' = [pc EXCEPT ![p] = "open"]
               /\ hdrOk' = TRUE
               /\ UNCHANGED <<disk, cache, dirty, val, sess, seen, commits, aux>>

\* OpenFd . Acquire . ReadHeader(failing) on the not yet initialised file: only before the creator holds the lock.
\* The event is logged AFTER the failed Open returned, so it may reach the log later than events of other sessions
\* that really happened after it: it is explained by any moment since this process' previous event at which the
\* file was uninitialised and unlocked (`win`: the processes for which such a moment has been seen).
OpenErr(p) == /\ Ln.ev = "openerr"
              /\ pc[p] = "idle" /\ p \in win
              /\ UNCHANGED <<disk, lock, pc, cache, dirty, val, sess, seen, commits, hdrOk, aux>>

\* OpenFd . Acquire . ReadHeader(failing) . cleanup: the path must not stay locked
OpenFail(p) == /\ Ln.ev = "openfail"
               /\ pc[p] = "idle"
               /\ Ln.probe = "free"
               /\ UNCHANGED <<disk, lock, pc, cache, dirty, val, sess, seen, commits, hdrOk, aux>>

\* WLoad: the generation read is the committed one
Load(p) == /\ Ln.ev = "load"
           /\ pc[p] = "open" /\ lock = p
           /\ Ln.v = commits /\ \A pg \in Pages : disk[pg] = Ln.v
           /\ UNCHANGED <<disk, lock, pc, cache, dirty, val, sess, seen, commits, hdrOk, aux>>

\* WStamp* . SyncStart . FlushPage* . SyncDone
Synced(p) == /\ Ln.ev = "synced"
             /\ pc[p] = "open" /\ lock = p
             /\ Ln.v = commits + 1
             /\ disk' = [pg \in Pages |-> Ln.v] /\ commits' = commits + 1
             /\ UNCHANGED <<lock, pc, cache, dirty, val, sess, seen, hdrOk, aux>>

\* (ReadPage | Observe)* of one fetch thread: one generation, the committed one
Seen(p) == /\ Ln.ev = "seen"
           /\ pc[p] = "open" /\ lock = p
           /\ Ln.vals = <<commits>>
           /\ UNCHANGED <<disk, lock, pc, cache, dirty, val, sess, seen, commits, hdrOk, aux>>

CloseStart(p) == /\ Ln.ev = "closestart"
                 /\ pc[p] = "open" /\ lock = p
                 /\ lock' = "free" /\ pc' = [pc EXCEPT ![p] = "idle"]
                 /\ UNCHANGED <<disk, cache, dirty, val, sess, seen, commits, hdrOk, aux>>

TInit == /\ l = 1 /\ Init /\ hdrOk = TRUE /\ exists = TRUE /\ win = {}
TNext == /\ l <= Len(Trace) /\ l' = l + 1
         /\ \/ Reset
            \/ \E p \in Procs : Ln.ev # "reset" /\ Ln.p = p /\
                 (OpenDone(p) \/ OpenErr(p) \/ OpenFail(p) \/ Load(p) \/ Synced(p) \/ Seen(p) \/ CloseStart(p))
         /\ win' = (IF Ln.ev = "reset" THEN {} ELSE win \ {Ln.p}) \cup (IF ~hdrOk' /\ lock' = "free" THEN Procs ELSE {})
TSpec == TInit /\ [][TNext]_tvars

\* the session-level steps preserve the invariants of WhisperFile
Accepted ==
  /\ PrintT(<<"TRACE_DEPTH", TLCGet("stats").diameter - 1, Len(Trace)>>)
  /\ TLCGet("stats").diameter - 1 = Len(Trace)
=============================================================================
