------------------------------ MODULE MC_CLI ------------------------------
EXTENDS WhisperCLI
Lay(s) == [i \in 1..Len(s) |-> [step |-> s[i][1], n |-> s[i][2]]]
L_2_2 == Lay(<<<<1, 2>>, <<2, 2>>>>)
L_2_3 == Lay(<<<<1, 2>>, <<2, 3>>>>)
L_3_2b == Lay(<<<<1, 3>>, <<2, 2>>>>)
L_2_2_2 == Lay(<<<<1, 2>>, <<2, 2>>, <<4, 2>>>>)
L_2 == Lay(<<<<1, 2>>>>)
CLayoutsQuick == {L_2_2}
CLayoutsTwo == {L_2_2, L_2_3}
CLayouts3 == {L_2_2_2}
CLayoutsMix == {L_2_2, L_2}
MethodSum == {"sum"}
MethodsSL == {"sum", "last"}
MethodAvg == {"average"}
XffZero == {<<0, 1>>}
XffHalf == {<<1, 2>>}
Vals1 == {4}
Vals2 == {4, -8}
Vals0 == {0, 4}
=============================================================================
