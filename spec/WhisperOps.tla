----------------------------- MODULE WhisperOps -----------------------------
(***************************************************************************)
(* Pure operators describing what a Whisper file IS and what every library *)
(* operation of hnakamur/whispertool DOES.  No variables: every operator    *)
(* takes the file configuration `c`, the ring contents `r` and the clock    *)
(* `now` explicitly, so the same definitions serve the single-file state    *)
(* machine (WhisperCore), the multi-file command model (WhisperCLI) and the *)
(* trace specifications.                                                    *)
(*                                                                         *)
(*   c  = [layout |-> <<[step, n], ...>>, method |-> "sum"|.., xff |-> <<p,q>>] *)
(*   r  = <<ring_1, ..., ring_K>>, ring_a = <<slot_1..slot_n>> PHYSICAL order  *)
(*   slot = [t |-> interval (0 = never written), v |-> Val]                 *)
(*   Val  = <<>> (NaN)  |  <<x>> (the number x; model numbers are integers) *)
(*                                                                         *)
(* The operators are written in the shape of the code (one operator per    *)
(* function of whisper.go / archive_info.go) so that single lines can be   *)
(* switched to the defective behaviour found in the code by Quirks flags.  *)
(* Quirks = {} is the behaviour the properties demand.                     *)
(***************************************************************************)
EXTENDS Integers, Sequences, FiniteSets, TLC

CONSTANT Quirks   \* subset of {"D1","D2","D3"}; {} in every released config

NaN == <<>>
Num(x) == <<x>>
IsNaN(v) == v = <<>>
Empty == [t |-> 0, v |-> Num(0)]          \* twelve zero bytes on disk

K(c) == Len(c.layout)
StepOf(c, a) == c.layout[a].step
NOf(c, a) == c.layout[a].n
RetOf(c, a) == c.layout[a].step * c.layout[a].n
MaxRet(c) == RetOf(c, K(c))

\* archive_info.go intervalForWrite / interval (floored modulo)
AlignW(s, t) == t - (t % s)
AlignF(s, t) == t - (t % s) + s

\* the interval stored in the first physical slot; 0 = archive never written
BaseOf(ra) == ra[1].t
\* archive_info.go pointIndex: floored modulo of the distance to the base (1-based)
SlotIdx(c, a, base, I) == (((I - base) \div StepOf(c, a)) % NOf(c, a)) + 1
\* whisper.go getPointOffset: the first write ever goes to physical slot 1
WriteIdx(c, a, ra, I) == IF BaseOf(ra) = 0 THEN 1 ELSE SlotIdx(c, a, BaseOf(ra), I)
\* ring class of an interval: independent of base and of physical position
ClassOf(c, a, I) == (I \div StepOf(c, a)) % NOf(c, a)

EmptyRing(l) == [a \in 1..Len(l) |-> [i \in 1..l[a].n |-> Empty]]

(***************************************************************************)
(* Aggregation (whisper.go aggregate), in time order, code-shaped for NaN  *)
(***************************************************************************)
RECURSIVE SumVals(_)
SumVals(vs) == IF vs = <<>> THEN 0 ELSE Head(vs)[1] + SumVals(Tail(vs))
AnyNaN(vs) == \E i \in 1..Len(vs) : IsNaN(vs[i])

RECURSIVE MaxFold(_, _)
MaxFold(acc, vs) ==
  IF vs = <<>> THEN acc
  ELSE MaxFold(IF ~IsNaN(acc) /\ ~IsNaN(Head(vs)) /\ Head(vs)[1] > acc[1] THEN Head(vs) ELSE acc, Tail(vs))
RECURSIVE MinFold(_, _)
MinFold(acc, vs) ==
  IF vs = <<>> THEN acc
  ELSE MinFold(IF ~IsNaN(acc) /\ ~IsNaN(Head(vs)) /\ Head(vs)[1] < acc[1] THEN Head(vs) ELSE acc, Tail(vs))

\* vs non-empty.  Averages must be exact integers in the model (value domains
\* are chosen as multiples of lcm(1..ratio)); the Assert guards the generators.
Agg(m, vs) ==
  CASE m = "sum"     -> IF AnyNaN(vs) THEN NaN ELSE Num(SumVals(vs))
    [] m = "average" -> IF AnyNaN(vs) THEN NaN
                        ELSE IF Assert(SumVals(vs) % Len(vs) = 0, <<"inexact average", vs>>)
                             THEN Num(SumVals(vs) \div Len(vs)) ELSE NaN
    [] m = "first"   -> vs[1]
    [] m = "last"    -> vs[Len(vs)]
    [] m = "max"     -> MaxFold(vs[1], vs)
    [] m = "min"     -> MinFold(vs[1], vs)

(***************************************************************************)
(* Write path.  A working state st = [ring, log]; log is the sequence of   *)
(* slot writes <<a, I, v>> actually performed (the history, used by the    *)
(* ghost oracle of C01 - it knows nothing about bases or indices).         *)
(***************************************************************************)
Put(c, st, a, I, v) ==
  LET ra == st.ring[a]
      idx == WriteIdx(c, a, ra, I)
  IN [ring |-> [st.ring EXCEPT ![a] = [ra EXCEPT ![idx] = [t |-> I, v |-> v]]],
      log  |-> Append(st.log, <<a, I, v>>)]

\* whisper.go fetchRawPoints: cnt consecutive physical slots starting at the
\* slot of fromI, wrapping at the end of the archive region
RawSeq(c, a, ra, fromI, cnt) ==
  LET s0 == SlotIdx(c, a, BaseOf(ra), fromI)
  IN [i \in 1..cnt |-> ra[((s0 - 1 + i - 1) % NOf(c, a)) + 1]]

\* whisper.go filterValidValues: values whose stored interval is the expected one
Known(c, a, ra, fromI, cnt) ==
  LET raw == RawSeq(c, a, ra, fromI, cnt)
      RECURSIVE Build(_)
      Build(i) == IF i > cnt THEN <<>>
                  ELSE IF raw[i].t = fromI + (i - 1) * StepOf(c, a)
                       THEN <<raw[i].v>> \o Build(i + 1) ELSE Build(i + 1)
  IN Build(1)

\* the value D1 (today's code) invents from an empty known set
Invented(m) == IF m = "sum" THEN Num(0) ELSE IF m = "average" THEN NaN ELSE Num(-999)

\* whisper.go propagate: aggregate the intervals ts of archive a from archive a-1
RECURSIVE PropLevel(_, _, _, _, _)
PropLevel(c, st, a, ts, out) ==
  IF ts = <<>> THEN [st |-> st, out |-> out]
  ELSE
    LET t == Head(ts)
        ratio == StepOf(c, a) \div StepOf(c, a - 1)
        kn == Known(c, a - 1, st.ring[a - 1], t, ratio)
        k == Len(kn)
        skip == (k = 0 /\ "D1" \notin Quirks) \/ (k * c.xff[2] < c.xff[1] * ratio)
        v == IF k = 0 THEN Invented(c.method) ELSE Agg(c.method, kn)
        st2 == IF skip THEN st ELSE Put(c, st, a, t, v)
        tl == IF a < K(c) THEN AlignW(StepOf(c, a + 1), t) ELSE 0
        out2 == IF skip \/ a = K(c) THEN out
                ELSE IF out # <<>> /\ out[Len(out)] = tl THEN out ELSE Append(out, tl)
    IN PropLevel(c, st2, a, Tail(ts), out2)

\* whisper.go propagateChain: level by level, only for slots that were stored
RECURSIVE PropChain(_, _, _, _)
PropChain(c, st, a, ts) ==
  IF a > K(c) \/ ts = <<>> THEN st
  ELSE LET res == PropLevel(c, st, a, ts, <<>>) IN PropChain(c, res.st, a + 1, res.out)

\* archive_info.go timesToPropagate: align, drop consecutive duplicates
RECURSIVE DedupAlign(_, _, _)
DedupAlign(s, ts, out) ==
  IF ts = <<>> THEN out
  ELSE LET t == AlignW(s, Head(ts))
       IN DedupAlign(s, Tail(ts), IF out # <<>> /\ out[Len(out)] = t THEN out ELSE Append(out, t))

RECURSIVE PutAll(_, _, _, _)
PutAll(c, st, a, pts) ==
  IF pts = <<>> THEN st
  ELSE PutAll(c, Put(c, st, a, AlignW(StepOf(c, a), Head(pts).t), Head(pts).v), a, Tail(pts))

\* whisper.go archiveUpdateMany / the tail of UpdatePointForArchive:
\* pts sorted ascending by raw time; written in that order (so among points of
\* one slot the last in sorted order wins), then propagated.
WriteArchive(c, st, a, pts) ==
  LET st1 == PutAll(c, st, a, pts)
      aligned == [i \in 1..Len(pts) |-> AlignW(StepOf(c, a), pts[i].t)]
  IN IF a < K(c) THEN PropChain(c, st1, a + 1, DedupAlign(StepOf(c, a + 1), aligned, <<>>)) ELSE st1

\* sort.Stable(Points): stable insertion sort by raw time
RECURSIVE InsertSorted(_, _)
InsertSorted(s, p) == IF s = <<>> THEN <<p>>
                      ELSE IF s[Len(s)].t <= p.t THEN Append(s, p)
                      ELSE Append(InsertSorted(SubSeq(s, 1, Len(s) - 1), p), s[Len(s)])
RECURSIVE SortStable(_, _)
SortStable(s, acc) == IF s = <<>> THEN acc ELSE SortStable(Tail(s), InsertSorted(acc, Head(s)))

\* whisper.go findBestArchive: finest archive whose retention is >= the age
BestArchive(c, now, t) ==
  LET d == now - t
      cand == {a \in 1..K(c) : RetOf(c, a) >= d}
  IN IF cand = {} THEN K(c) ELSE CHOOSE a \in cand : \A b \in cand : a <= b

\* whisper.go UpdatePointForArchive acceptance test
SingleAccepted(c, now, t) == ~(t <= now - MaxRet(c) \/ now < t)

\* sel = 0: best archive, else the named archive (1-based)
UpdateOne(c, r, now, sel, p) ==
  LET st0 == [ring |-> r, log |-> <<>>]
      a == IF sel = 0 THEN BestArchive(c, now, p.t) ELSE sel
  IN IF SingleAccepted(c, now, p.t) THEN [ok |-> TRUE, st |-> WriteArchive(c, st0, a, <<p>>)]
     ELSE [ok |-> FALSE, st |-> st0]

\* whisper.go UpdatePointsForArchive + extractPoints: per archive, the suffix of
\* the time-sorted batch younger than that archive's retention
RECURSIVE ManyLoop(_, _, _, _, _, _)
ManyLoop(c, st, now, a, pts, sel) ==
  IF a > K(c) THEN st
  ELSE IF sel # 0 /\ sel # a THEN ManyLoop(c, st, now, a + 1, pts, sel)
  ELSE
    LET young(p) == p.t > now - RetOf(c, a)
        old(p) == ~young(p)
        \* D2 (today's code): when exactly the first (oldest) point of the sorted
        \* batch is the only stale one, nothing is extracted for this archive
        d2 == "D2" \in Quirks /\ Len(pts) > 0 /\ old(pts[1]) /\ (Len(pts) = 1 \/ young(pts[2]))
        cur == IF d2 THEN <<>> ELSE SelectSeq(pts, young)
        rest == IF d2 THEN pts ELSE SelectSeq(pts, old)
        st2 == IF cur = <<>> THEN st ELSE WriteArchive(c, st, a, cur)
    IN ManyLoop(c, st2, now, a + 1, rest, sel)

UpdateBatch(c, r, now, sel, pts) ==
  ManyLoop(c, [ring |-> r, log |-> <<>>], now, 1, SortStable(pts, <<>>), sel)

(***************************************************************************)
(* Fetch (whisper.go FetchFromArchive).  a = 0 means "best archive";       *)
(* a outside 0..K is an out-of-range id.                                   *)
(***************************************************************************)
Fetch(c, r, now, a, from, until) ==
  IF from > until THEN [k |-> "err"]
  ELSE IF a < 0 \/ a > K(c) THEN [k |-> "err"]
  ELSE
    LET aa == IF a = 0 THEN BestArchive(c, now, from) ELSE a
        oldest == now - RetOf(c, aa)
    IN IF from > now \/ until < oldest THEN [k |-> "nil"]
       ELSE
         LET f == IF from < oldest THEN oldest ELSE from
             u == IF until > now THEN now ELSE until
             fi == AlignF(StepOf(c, aa), f)
             ui0 == AlignF(StepOf(c, aa), u)
             ra == r[aa]
             \* D3 (today's code): a never-written archive skips the degenerate extension
             d3 == "D3" \in Quirks /\ BaseOf(ra) = 0
             ui == IF fi = ui0 /\ ~d3 THEN ui0 + StepOf(c, aa) ELSE ui0
             cnt == (ui - fi) \div StepOf(c, aa)
             raw == IF BaseOf(ra) = 0 THEN [i \in 1..cnt |-> Empty] ELSE RawSeq(c, aa, ra, fi, cnt)
         IN [k |-> "ts", arch |-> aa, from |-> fi, until |-> ui, step |-> StepOf(c, aa), deg |-> (fi = ui0),
             vals |-> [i \in 1..cnt |-> IF raw[i].t = fi + (i - 1) * StepOf(c, aa) THEN raw[i].v ELSE NaN]]

\* C04: the shape as a closed form of (layout, window, clock) only
FetchShape(c, now, a, from, until) ==
  IF from > until \/ a < 0 \/ a > K(c) THEN [k |-> "err"]
  ELSE LET aa == IF a = 0 THEN BestArchive(c, now, from) ELSE a
           oldest == now - RetOf(c, aa)
       IN IF from > now \/ until < oldest THEN [k |-> "nil"]
          ELSE LET f == IF from < oldest THEN oldest ELSE from
                   u == IF until > now THEN now ELSE until
                   fi == AlignF(StepOf(c, aa), f)
                   ui0 == AlignF(StepOf(c, aa), u)
                   ui == IF fi = ui0 THEN ui0 + StepOf(c, aa) ELSE ui0
               IN [k |-> "ts", arch |-> aa, from |-> fi, until |-> ui, step |-> StepOf(c, aa),
                   cnt |-> (ui - fi) \div StepOf(c, aa)]

ShapeOf(res) == IF res.k = "ts"
                THEN [k |-> "ts", arch |-> res.arch, from |-> res.from, until |-> res.until,
                      step |-> res.step, cnt |-> Len(res.vals)]
                ELSE res

\* logical content of a ring: the set of (interval, value) pairs it stores
Content(ra) == {ra[i] : i \in {j \in 1..Len(ra) : ra[j].t # 0}}

=============================================================================
