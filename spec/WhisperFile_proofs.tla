------------------------ MODULE WhisperFile_proofs ------------------------
(***************************************************************************)
(* TLAPS proof, for ANY sets of writers/readers, pages, threads and any    *)
(* number of sessions, that the quirk-free specification of WhisperFile    *)
(* keeps C13's two lock properties: at most one handle at a time (Mutex)   *)
(* and the lock lives exactly as long as a handle (LockLifetime).          *)
(* TLC checks them only for the small constants of the .cfg files.         *)
(***************************************************************************)
EXTENDS WhisperFile, TLAPS

ASSUME QuirkFree == FQuirks = {}
ASSUME FreeIsNoProc == "free" \notin Procs

PcStates == {"idle", "locking", "hdr", "open", "syncing", "synced"}

LockInv == /\ pc \in [Procs -> PcStates]
           /\ lock \in Procs \cup {"free"}
           /\ \A p \in Procs : HasHandle(p) <=> lock = p

LEMMA InitInv == Init => LockInv
  BY FreeIsNoProc DEF Init, LockInv, PcStates, HasHandle

LEMMA NextInv == LockInv /\ [Next]_vars => LockInv'
<1> SUFFICES ASSUME LockInv, [Next]_vars PROVE LockInv'
  OBVIOUS
<1>1. ASSUME NEW p \in Procs, OpenFd(p) PROVE LockInv'
  BY <1>1, FreeIsNoProc DEF OpenFd, LockInv, PcStates, HasHandle
<1>2. ASSUME NEW p \in Procs, CreateFd(p) PROVE LockInv'
  BY <1>2, FreeIsNoProc DEF CreateFd, LockInv, PcStates, HasHandle
<1>3. ASSUME NEW p \in Procs, Acquire(p) PROVE LockInv'
  BY <1>3, FreeIsNoProc, QuirkFree DEF Acquire, NoLock, LockInv, PcStates, HasHandle
<1>4. ASSUME NEW p \in Procs, ReadHeader(p) PROVE LockInv'
  BY <1>4, FreeIsNoProc, QuirkFree DEF ReadHeader, LockInv, PcStates, HasHandle
<1>5. ASSUME NEW p \in Procs, InitFile(p) PROVE LockInv'
  BY <1>5, FreeIsNoProc DEF InitFile, LockInv, PcStates, HasHandle
<1>6. ASSUME NEW p \in Procs, Finalize(p) PROVE LockInv'
  BY <1>6, FreeIsNoProc DEF Finalize, LockInv, PcStates, HasHandle
<1>7. ASSUME NEW p \in Procs, NEW pg \in Pages, ReadPage(p, pg) \/ WStamp(p, pg) \/ FlushPage(p, pg) PROVE LockInv'
  BY <1>7, FreeIsNoProc DEF ReadPage, WStamp, FlushPage, LockInv, PcStates, HasHandle
<1>8. ASSUME NEW p \in Procs, NEW pg \in Pages, NEW t \in Threads, Observe(p, t, pg) PROVE LockInv'
  BY <1>8, FreeIsNoProc DEF Observe, LockInv, PcStates, HasHandle
<1>9. ASSUME NEW p \in Procs, WLoad(p) \/ SyncStart(p) \/ SyncDone(p) PROVE LockInv'
  BY <1>9, FreeIsNoProc DEF WLoad, SyncStart, SyncDone, LockInv, PcStates, HasHandle
<1>10. ASSUME NEW p \in Procs, Close(p) PROVE LockInv'
  BY <1>10, FreeIsNoProc DEF Close, LockInv, PcStates, HasHandle
<1>11. ASSUME NEW p \in Procs, Crash(p) PROVE LockInv'
  BY <1>11, FreeIsNoProc DEF Crash, LockInv, PcStates, HasHandle
<1>12. ASSUME FlipHeader PROVE LockInv'
  BY <1>12 DEF FlipHeader, LockInv, PcStates, HasHandle
<1>13. ASSUME UNCHANGED vars PROVE LockInv'
  BY <1>13 DEF vars, LockInv, PcStates, HasHandle
<1> QED
  BY <1>1, <1>2, <1>3, <1>4, <1>5, <1>6, <1>7, <1>8, <1>9, <1>10, <1>11, <1>12, <1>13 DEF Next

THEOREM LockSafety == Spec => [](Mutex /\ LockLifetime)
<1>1. LockInv => Mutex /\ LockLifetime
  BY DEF LockInv, Mutex, LockLifetime, HasHandle
<1>2. Spec => []LockInv
  BY InitInv, NextInv, PTL DEF Spec
<1> QED
  BY <1>1, <1>2, PTL
=============================================================================
