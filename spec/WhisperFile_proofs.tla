------------------------ MODULE WhisperFile_proofs ------------------------
(***************************************************************************)
(* TLAPS proof - for ANY sets of writers and readers, any number of pages, *)
(* threads and sessions, and unbounded generations - that the quirk-free   *)
(* specification WhisperFile keeps                                         *)
(*   Mutex, LockLifetime, NoLostUpdate, ReaderUniform           (C13)      *)
(*   SyncedEqualsView, CleanPagesFresh              (page level of C05)    *)
(* TLC checks the same invariants exhaustively, but only for the small     *)
(* constants of the .cfg files.  Inv is the inductive invariant; TLC also  *)
(* checks it on the reachable states (cheap way to find a non-invariant    *)
(* before attempting the proof).  One step per action and conjunct, so a   *)
(* change of the specification that breaks the argument points at the      *)
(* action and the clause that fail.                                        *)
(***************************************************************************)
EXTENDS WhisperFile, TLAPS, FiniteSetTheorems

ASSUME QuirkFree == FQuirks = {}
ASSUME FreeIsNoProc == "free" \notin Procs
ASSUME PagesNat == NPages \in Nat /\ NPages >= 1
ASSUME Disjoint == Writers \cap Readers = {}

PcStates == {"idle", "locking", "hdr", "open", "syncing", "synced"}

TypeInv == /\ pc \in [Procs -> PcStates]
           /\ lock \in Procs \cup {"free"}
           /\ disk \in [Pages -> Int]
           /\ cache \in [Procs -> [Pages -> Int]]
           /\ dirty \in [Procs -> SUBSET Pages]
           /\ val \in [Procs -> Int]
           /\ commits \in Nat
           /\ seen \in [Procs -> [Threads -> SUBSET Int]]
           /\ mode \in [Procs -> {"open", "create"}]
           /\ exists \in BOOLEAN /\ hdrOk \in BOOLEAN

LockI == \A p \in Procs : HasHandle(p) <=> lock = p

QuietI == \A p \in Procs : pc[p] \in {"idle", "locking", "hdr"} =>
             /\ \A pg \in Pages : cache[p][pg] = Unread
             /\ dirty[p] = {} /\ val[p] = Unread

DiskI == (\A p \in Procs : pc[p] # "syncing") => \A pg \in Pages : disk[pg] = commits

SyncingI == \A p \in Procs : pc[p] = "syncing" =>
               /\ val[p] = commits + 1
               /\ \A pg \in Pages : /\ cache[p][pg] = val[p]
                                    /\ pg \in dirty[p] => disk[pg] = commits
                                    /\ pg \notin dirty[p] => disk[pg] = val[p]

OpenI == \A p \in Procs : pc[p] = "open" =>
            /\ val[p] = Unread \/ val[p] = commits + 1
            /\ cache[p][0] # Unread
            /\ \A pg \in Pages : \/ cache[p][pg] = Unread
                                 \/ cache[p][pg] = disk[pg]
                                 \/ (pg \in dirty[p] /\ val[p] # Unread /\ cache[p][pg] = val[p])
            /\ \A pg \in Pages : (val[p] # Unread /\ cache[p][pg] = val[p]) => pg \in dirty[p]

WriterI == \A p \in Procs : val[p] # Unread => p \in Writers

SyncedI == \A p \in Procs : pc[p] = "synced" => \A pg \in Pages : cache[p][pg] = disk[pg]

ExistsI == ~exists => (commits = 0 /\ ~hdrOk /\ \A p \in Procs : pc[p] = "idle")

CreatorPending == \E p \in Procs : mode[p] = "create" /\ pc[p] \in {"locking", "hdr"}
CreatorI == CreatorPending => (commits = 0 /\ ~hdrOk /\ \A q \in Procs : pc[q] \in {"idle", "locking", "hdr"})

UniqueI == \A p, q \in Procs : (mode[p] = "create" /\ pc[p] \in {"locking", "hdr"} /\ mode[q] = "create" /\ pc[q] \in {"locking", "hdr"}) => p = q

ReaderI == \A p \in Procs : \A t \in Threads :
              /\ pc[p] \in {"locking", "hdr"} => seen[p][t] = {}
              /\ pc[p] \in {"open", "syncing", "synced"} => seen[p][t] \subseteq {commits}
              /\ \E c \in Int : seen[p][t] \subseteq {c}
              /\ p \notin Readers => seen[p][t] = {}
              /\ ~exists => seen[p][t] = {}

Inv == ReaderI /\ TypeInv /\ LockI /\ QuietI /\ DiskI /\ SyncingI /\ OpenI /\ WriterI /\ ExistsI /\ CreatorI /\ UniqueI /\ SyncedI


LEMMA InitInv == Init => Inv
  BY FreeIsNoProc, PagesNat DEF Init, Inv, TypeInv, LockI, QuietI, DiskI, SyncingI, OpenI, WriterI, ExistsI, CreatorI, CreatorPending, UniqueI, SyncedI, ReaderI,
     PcStates, HasHandle, Unread, Pages, Damages

LEMMA NextInv == Inv /\ [Next]_vars => Inv'
<1> SUFFICES ASSUME Inv, [Next]_vars PROVE Inv'
  OBVIOUS
<1> USE FreeIsNoProc, QuirkFree, PagesNat, Disjoint DEF Inv, TypeInv, LockI, QuietI, DiskI, SyncingI, OpenI, WriterI, ExistsI, CreatorI, CreatorPending, UniqueI, SyncedI, ReaderI,
     PcStates, HasHandle, Unread, Pages, aux
<1>1. ASSUME NEW p \in Procs, OpenFd(p) PROVE Inv'
  <2>1. TypeInv'
    BY <1>1 DEF OpenFd
  <2>2. LockI'
    BY <1>1 DEF OpenFd
  <2>3. QuietI'
    BY <1>1 DEF OpenFd
  <2>4. DiskI'
    BY <1>1 DEF OpenFd
  <2>5. SyncingI'
    BY <1>1 DEF OpenFd
  <2>6. OpenI'
    BY <1>1 DEF OpenFd
  <2>7. WriterI'
    BY <1>1 DEF OpenFd
  <2>8. ExistsI'
    BY <1>1 DEF OpenFd
  <2>9. CreatorI'
    BY <1>1 DEF OpenFd
  <2>10. UniqueI'
    BY <1>1 DEF OpenFd
  <2>11. SyncedI'
    BY <1>1 DEF OpenFd
  <2>12. ReaderI'
    BY <1>1 DEF OpenFd
  <2> QED
    BY <2>1, <2>2, <2>3, <2>4, <2>5, <2>6, <2>7, <2>8, <2>9, <2>10, <2>11, <2>12
<1>2. ASSUME NEW p \in Procs, CreateFd(p) PROVE Inv'
  <2>1. TypeInv'
    BY <1>2 DEF CreateFd
  <2>2. LockI'
    BY <1>2 DEF CreateFd
  <2>3. QuietI'
    BY <1>2 DEF CreateFd
  <2>4. DiskI'
    BY <1>2 DEF CreateFd
  <2>5. SyncingI'
    BY <1>2 DEF CreateFd
  <2>6. OpenI'
    BY <1>2 DEF CreateFd
  <2>7. WriterI'
    BY <1>2 DEF CreateFd
  <2>8. ExistsI'
    BY <1>2 DEF CreateFd
  <2>9. CreatorI'
    BY <1>2 DEF CreateFd
  <2>10. UniqueI'
    BY <1>2 DEF CreateFd
  <2>11. SyncedI'
    BY <1>2 DEF CreateFd
  <2>12. ReaderI'
    BY <1>2 DEF CreateFd
  <2> QED
    BY <2>1, <2>2, <2>3, <2>4, <2>5, <2>6, <2>7, <2>8, <2>9, <2>10, <2>11, <2>12
<1>3. ASSUME NEW p \in Procs, Acquire(p) PROVE Inv'
  <2>1. TypeInv'
    BY <1>3 DEF Acquire, NoLock
  <2>2. LockI'
    BY <1>3 DEF Acquire, NoLock
  <2>3. QuietI'
    BY <1>3 DEF Acquire, NoLock
  <2>4. DiskI'
    BY <1>3 DEF Acquire, NoLock
  <2>5. SyncingI'
    BY <1>3 DEF Acquire, NoLock
  <2>6. OpenI'
    BY <1>3 DEF Acquire, NoLock
  <2>7. WriterI'
    BY <1>3 DEF Acquire, NoLock
  <2>8. ExistsI'
    BY <1>3 DEF Acquire, NoLock
  <2>9. CreatorI'
    BY <1>3 DEF Acquire, NoLock
  <2>10. UniqueI'
    BY <1>3 DEF Acquire, NoLock
  <2>11. SyncedI'
    BY <1>3 DEF Acquire, NoLock
  <2>12. ReaderI'
    BY <1>3 DEF Acquire, NoLock
  <2> QED
    BY <2>1, <2>2, <2>3, <2>4, <2>5, <2>6, <2>7, <2>8, <2>9, <2>10, <2>11, <2>12
<1>4. ASSUME NEW p \in Procs, ReadHeader(p) PROVE Inv'
  <2>1. TypeInv'
    BY <1>4 DEF ReadHeader
  <2>2. LockI'
    BY <1>4 DEF ReadHeader
  <2>3. QuietI'
    BY <1>4 DEF ReadHeader
  <2>4. DiskI'
    BY <1>4 DEF ReadHeader
  <2>5. SyncingI'
    BY <1>4 DEF ReadHeader
  <2>6. OpenI'
    BY <1>4 DEF ReadHeader
  <2>7. WriterI'
    BY <1>4 DEF ReadHeader
  <2>8. ExistsI'
    BY <1>4 DEF ReadHeader
  <2>9. CreatorI'
    BY <1>4 DEF ReadHeader
  <2>10. UniqueI'
    BY <1>4 DEF ReadHeader
  <2>11. SyncedI'
    BY <1>4 DEF ReadHeader
  <2>12. ReaderI'
    BY <1>4 DEF ReadHeader
  <2> QED
    BY <2>1, <2>2, <2>3, <2>4, <2>5, <2>6, <2>7, <2>8, <2>9, <2>10, <2>11, <2>12
<1>5. ASSUME NEW p \in Procs, InitFile(p) PROVE Inv'
  <2>1. TypeInv'
    BY <1>5 DEF InitFile
  <2>2. LockI'
    BY <1>5 DEF InitFile
  <2>3. QuietI'
    BY <1>5 DEF InitFile
  <2>4. DiskI'
    BY <1>5 DEF InitFile
  <2>5. SyncingI'
    BY <1>5 DEF InitFile
  <2>6. OpenI'
    BY <1>5 DEF InitFile
  <2>7. WriterI'
    BY <1>5 DEF InitFile
  <2>8. ExistsI'
    BY <1>5 DEF InitFile
  <2>9. CreatorI'
    BY <1>5 DEF InitFile
  <2>10. UniqueI'
    BY <1>5 DEF InitFile
  <2>11. SyncedI'
    BY <1>5 DEF InitFile
  <2>12. ReaderI'
    BY <1>5 DEF InitFile
  <2> QED
    BY <2>1, <2>2, <2>3, <2>4, <2>5, <2>6, <2>7, <2>8, <2>9, <2>10, <2>11, <2>12
<1>6. ASSUME NEW p \in Procs, Finalize(p) PROVE Inv'
  <2>1. TypeInv'
    BY <1>6 DEF Finalize
  <2>2. LockI'
    BY <1>6 DEF Finalize
  <2>3. QuietI'
    BY <1>6 DEF Finalize
  <2>4. DiskI'
    BY <1>6 DEF Finalize
  <2>5. SyncingI'
    BY <1>6 DEF Finalize
  <2>6. OpenI'
    BY <1>6 DEF Finalize
  <2>7. WriterI'
    BY <1>6 DEF Finalize
  <2>8. ExistsI'
    BY <1>6 DEF Finalize
  <2>9. CreatorI'
    BY <1>6 DEF Finalize
  <2>10. UniqueI'
    BY <1>6 DEF Finalize
  <2>11. SyncedI'
    BY <1>6 DEF Finalize
  <2>12. ReaderI'
    BY <1>6 DEF Finalize
  <2> QED
    BY <2>1, <2>2, <2>3, <2>4, <2>5, <2>6, <2>7, <2>8, <2>9, <2>10, <2>11, <2>12
<1>7. ASSUME NEW p \in Procs, NEW pg \in Pages, ReadPage(p, pg) PROVE Inv'
  <2>1. TypeInv'
    BY <1>7 DEF ReadPage
  <2>2. LockI'
    BY <1>7 DEF ReadPage
  <2>3. QuietI'
    BY <1>7 DEF ReadPage
  <2>4. DiskI'
    BY <1>7 DEF ReadPage
  <2>5. SyncingI'
    BY <1>7 DEF ReadPage
  <2>6. OpenI'
    BY <1>7 DEF ReadPage
  <2>7. WriterI'
    BY <1>7 DEF ReadPage
  <2>8. ExistsI'
    BY <1>7 DEF ReadPage
  <2>9. CreatorI'
    BY <1>7 DEF ReadPage
  <2>10. UniqueI'
    BY <1>7 DEF ReadPage
  <2>11. SyncedI'
    BY <1>7 DEF ReadPage
  <2>12. ReaderI'
    BY <1>7 DEF ReadPage
  <2> QED
    BY <2>1, <2>2, <2>3, <2>4, <2>5, <2>6, <2>7, <2>8, <2>9, <2>10, <2>11, <2>12
<1>8. ASSUME NEW p \in Procs, NEW pg \in Pages, WStamp(p, pg) PROVE Inv'
  <2>1. TypeInv'
    BY <1>8 DEF WStamp
  <2>2. LockI'
    BY <1>8 DEF WStamp
  <2>3. QuietI'
    BY <1>8 DEF WStamp
  <2>4. DiskI'
    BY <1>8 DEF WStamp
  <2>5. SyncingI'
    BY <1>8 DEF WStamp
  <2>6. OpenI'
    BY <1>8 DEF WStamp
  <2>7. WriterI'
    BY <1>8 DEF WStamp
  <2>8. ExistsI'
    BY <1>8 DEF WStamp
  <2>9. CreatorI'
    BY <1>8 DEF WStamp
  <2>10. UniqueI'
    BY <1>8 DEF WStamp
  <2>11. SyncedI'
    BY <1>8 DEF WStamp
  <2>12. ReaderI'
    BY <1>8 DEF WStamp
  <2> QED
    BY <2>1, <2>2, <2>3, <2>4, <2>5, <2>6, <2>7, <2>8, <2>9, <2>10, <2>11, <2>12
<1>9. ASSUME NEW p \in Procs, NEW pg \in Pages, FlushPage(p, pg) PROVE Inv'
  <2>1. TypeInv'
    BY <1>9 DEF FlushPage
  <2>2. LockI'
    BY <1>9 DEF FlushPage
  <2>3. QuietI'
    BY <1>9 DEF FlushPage
  <2>4. DiskI'
    BY <1>9 DEF FlushPage
  <2>5. SyncingI'
    BY <1>9 DEF FlushPage
  <2>6. OpenI'
    BY <1>9 DEF FlushPage
  <2>7. WriterI'
    BY <1>9 DEF FlushPage
  <2>8. ExistsI'
    BY <1>9 DEF FlushPage
  <2>9. CreatorI'
    BY <1>9 DEF FlushPage
  <2>10. UniqueI'
    BY <1>9 DEF FlushPage
  <2>11. SyncedI'
    BY <1>9 DEF FlushPage
  <2>12. ReaderI'
    BY <1>9 DEF FlushPage
  <2> QED
    BY <2>1, <2>2, <2>3, <2>4, <2>5, <2>6, <2>7, <2>8, <2>9, <2>10, <2>11, <2>12
<1>10. ASSUME NEW p \in Procs, NEW pg \in Pages, NEW t \in Threads, Observe(p, t, pg) PROVE Inv'
  <2>1. TypeInv'
    BY <1>10 DEF Observe
  <2>2. LockI'
    BY <1>10 DEF Observe
  <2>3. QuietI'
    BY <1>10 DEF Observe
  <2>4. DiskI'
    BY <1>10 DEF Observe
  <2>5. SyncingI'
    BY <1>10 DEF Observe
  <2>6. OpenI'
    BY <1>10 DEF Observe
  <2>7. WriterI'
    BY <1>10 DEF Observe
  <2>8. ExistsI'
    BY <1>10 DEF Observe
  <2>9. CreatorI'
    BY <1>10 DEF Observe
  <2>10. UniqueI'
    BY <1>10 DEF Observe
  <2>11. SyncedI'
    BY <1>10 DEF Observe
  <2>12. ReaderI'
    BY <1>10 DEF Observe
  <2> QED
    BY <2>1, <2>2, <2>3, <2>4, <2>5, <2>6, <2>7, <2>8, <2>9, <2>10, <2>11, <2>12
<1>11. ASSUME NEW p \in Procs, WLoad(p) PROVE Inv'
  <2>1. TypeInv'
    BY <1>11 DEF WLoad
  <2>2. LockI'
    BY <1>11 DEF WLoad
  <2>3. QuietI'
    BY <1>11 DEF WLoad
  <2>4. DiskI'
    BY <1>11 DEF WLoad
  <2>5. SyncingI'
    BY <1>11 DEF WLoad
  <2>6. OpenI'
    BY <1>11 DEF WLoad
  <2>7. WriterI'
    BY <1>11 DEF WLoad
  <2>8. ExistsI'
    BY <1>11 DEF WLoad
  <2>9. CreatorI'
    BY <1>11 DEF WLoad
  <2>10. UniqueI'
    BY <1>11 DEF WLoad
  <2>11. SyncedI'
    BY <1>11 DEF WLoad
  <2>12. ReaderI'
    BY <1>11 DEF WLoad
  <2> QED
    BY <2>1, <2>2, <2>3, <2>4, <2>5, <2>6, <2>7, <2>8, <2>9, <2>10, <2>11, <2>12
<1>12. ASSUME NEW p \in Procs, SyncStart(p) PROVE Inv'
  <2>1. TypeInv'
    BY <1>12 DEF SyncStart
  <2>2. LockI'
    BY <1>12 DEF SyncStart
  <2>3. QuietI'
    BY <1>12 DEF SyncStart
  <2>4. DiskI'
    BY <1>12 DEF SyncStart
  <2>5. SyncingI'
    BY <1>12 DEF SyncStart
  <2>6. OpenI'
    BY <1>12 DEF SyncStart
  <2>7. WriterI'
    BY <1>12 DEF SyncStart
  <2>8. ExistsI'
    BY <1>12 DEF SyncStart
  <2>9. CreatorI'
    BY <1>12 DEF SyncStart
  <2>10. UniqueI'
    BY <1>12 DEF SyncStart
  <2>11. SyncedI'
    BY <1>12 DEF SyncStart
  <2>12. ReaderI'
    BY <1>12 DEF SyncStart
  <2> QED
    BY <2>1, <2>2, <2>3, <2>4, <2>5, <2>6, <2>7, <2>8, <2>9, <2>10, <2>11, <2>12
<1>13. ASSUME NEW p \in Procs, SyncDone(p) PROVE Inv'
  <2>1. TypeInv'
    BY <1>13 DEF SyncDone
  <2>2. LockI'
    BY <1>13 DEF SyncDone
  <2>3. QuietI'
    BY <1>13 DEF SyncDone
  <2>4. DiskI'
    BY <1>13 DEF SyncDone
  <2>5. SyncingI'
    BY <1>13 DEF SyncDone
  <2>6. OpenI'
    BY <1>13 DEF SyncDone
  <2>7. WriterI'
    BY <1>13 DEF SyncDone
  <2>8. ExistsI'
    BY <1>13 DEF SyncDone
  <2>9. CreatorI'
    BY <1>13 DEF SyncDone
  <2>10. UniqueI'
    BY <1>13 DEF SyncDone
  <2>11. SyncedI'
    BY <1>13 DEF SyncDone
  <2>12. ReaderI'
    BY <1>13 DEF SyncDone
  <2> QED
    BY <2>1, <2>2, <2>3, <2>4, <2>5, <2>6, <2>7, <2>8, <2>9, <2>10, <2>11, <2>12
<1>14. ASSUME NEW p \in Procs, Close(p) PROVE Inv'
  <2>1. TypeInv'
    BY <1>14 DEF Close
  <2>2. LockI'
    BY <1>14 DEF Close
  <2>3. QuietI'
    BY <1>14 DEF Close
  <2>4. DiskI'
    BY <1>14 DEF Close
  <2>5. SyncingI'
    BY <1>14 DEF Close
  <2>6. OpenI'
    BY <1>14 DEF Close
  <2>7. WriterI'
    BY <1>14 DEF Close
  <2>8. ExistsI'
    BY <1>14 DEF Close
  <2>9. CreatorI'
    BY <1>14 DEF Close
  <2>10. UniqueI'
    BY <1>14 DEF Close
  <2>11. SyncedI'
    BY <1>14 DEF Close
  <2>12. ReaderI'
    BY <1>14 DEF Close
  <2> QED
    BY <2>1, <2>2, <2>3, <2>4, <2>5, <2>6, <2>7, <2>8, <2>9, <2>10, <2>11, <2>12
<1>15. ASSUME NEW p \in Procs, Crash(p) PROVE Inv'
  <2>1. TypeInv'
    BY <1>15 DEF Crash
  <2>2. LockI'
    BY <1>15 DEF Crash
  <2>3. QuietI'
    BY <1>15 DEF Crash
  <2>4. DiskI'
    BY <1>15 DEF Crash
  <2>5. SyncingI'
    BY <1>15 DEF Crash
  <2>6. OpenI'
    BY <1>15 DEF Crash
  <2>7. WriterI'
    BY <1>15 DEF Crash
  <2>8. ExistsI'
    BY <1>15 DEF Crash
  <2>9. CreatorI'
    BY <1>15 DEF Crash
  <2>10. UniqueI'
    BY <1>15 DEF Crash
  <2>11. SyncedI'
    BY <1>15 DEF Crash
  <2>12. ReaderI'
    BY <1>15 DEF Crash
  <2> QED
    BY <2>1, <2>2, <2>3, <2>4, <2>5, <2>6, <2>7, <2>8, <2>9, <2>10, <2>11, <2>12
<1>16. ASSUME FlipHeader PROVE Inv'
  <2>1. TypeInv'
    BY <1>16 DEF FlipHeader
  <2>2. LockI'
    BY <1>16 DEF FlipHeader
  <2>3. QuietI'
    BY <1>16 DEF FlipHeader
  <2>4. DiskI'
    BY <1>16 DEF FlipHeader
  <2>5. SyncingI'
    BY <1>16 DEF FlipHeader
  <2>6. OpenI'
    BY <1>16 DEF FlipHeader
  <2>7. WriterI'
    BY <1>16 DEF FlipHeader
  <2>8. ExistsI'
    BY <1>16 DEF FlipHeader
  <2>9. CreatorI'
    BY <1>16 DEF FlipHeader
  <2>10. UniqueI'
    BY <1>16 DEF FlipHeader
  <2>11. SyncedI'
    BY <1>16 DEF FlipHeader
  <2>12. ReaderI'
    BY <1>16 DEF FlipHeader
  <2> QED
    BY <2>1, <2>2, <2>3, <2>4, <2>5, <2>6, <2>7, <2>8, <2>9, <2>10, <2>11, <2>12
<1>17. ASSUME UNCHANGED vars PROVE Inv'
  <2>1. TypeInv'
    BY <1>17 DEF vars, aux
  <2>2. LockI'
    BY <1>17 DEF vars, aux
  <2>3. QuietI'
    BY <1>17 DEF vars, aux
  <2>4. DiskI'
    BY <1>17 DEF vars, aux
  <2>5. SyncingI'
    BY <1>17 DEF vars, aux
  <2>6. OpenI'
    BY <1>17 DEF vars, aux
  <2>7. WriterI'
    BY <1>17 DEF vars, aux
  <2>8. ExistsI'
    BY <1>17 DEF vars, aux
  <2>9. CreatorI'
    BY <1>17 DEF vars, aux
  <2>10. UniqueI'
    BY <1>17 DEF vars, aux
  <2>11. SyncedI'
    BY <1>17 DEF vars, aux
  <2>12. ReaderI'
    BY <1>17 DEF vars, aux
  <2> QED
    BY <2>1, <2>2, <2>3, <2>4, <2>5, <2>6, <2>7, <2>8, <2>9, <2>10, <2>11, <2>12
<1> QED
  BY <1>1, <1>2, <1>3, <1>4, <1>5, <1>6, <1>7, <1>8, <1>9, <1>10, <1>11, <1>12, <1>13, <1>14, <1>15, <1>16, <1>17 DEF Next

LEMMA SubSingleton == \A c, S : S \subseteq {c} => Cardinality(S) <= 1
<1> SUFFICES ASSUME NEW c, NEW S, S \subseteq {c} PROVE Cardinality(S) <= 1
  OBVIOUS
<1>1. IsFiniteSet({c}) /\ Cardinality({c}) = 1
  BY FS_Singleton
<1>2. IsFiniteSet(S) /\ Cardinality(S) <= Cardinality({c})
  BY <1>1, FS_Subset
<1> QED
  BY <1>1, <1>2

LEMMA InvReaderUniform == Inv => ReaderUniform
<1> SUFFICES ASSUME Inv, NEW p \in Readers, NEW t \in Threads PROVE Cardinality(seen[p][t]) <= 1
  BY DEF ReaderUniform
<1>1. p \in Procs
  BY DEF Procs
<1>2. PICK c \in Int : seen[p][t] \subseteq {c}
  BY <1>1 DEF Inv, ReaderI
<1> QED
  BY <1>2, SubSingleton

THEOREM Safety == Spec => [](NoLostUpdate /\ Mutex /\ LockLifetime /\ ReaderUniform /\ SyncedEqualsView /\ CleanPagesFresh)
<1>1. Inv => NoLostUpdate /\ Mutex /\ LockLifetime /\ SyncedEqualsView /\ CleanPagesFresh
  BY DEF Inv, TypeInv, DiskI, LockI, OpenI, SyncedI, NoLostUpdate, Mutex, LockLifetime, SyncedEqualsView, CleanPagesFresh, HasHandle, Unread, PcStates
<1>2. Spec => []Inv
  BY InitInv, NextInv, PTL DEF Spec
<1> QED
  BY <1>1, <1>2, InvReaderUniform, PTL
=============================================================================
