------------------------------ MODULE TextSyntax ------------------------------
(***************************************************************************)
(* The textual syntax of durations, retention lists, timestamps and        *)
(* aggregation-method names (C19; used by C07 and C12).  Strings are        *)
(* sequences of one-character strings.  Reject = -1.                        *)
(***************************************************************************)
EXTENDS Integers, Sequences, FiniteSets, TLC, Json, SequencesExt

MaxInt31 == 2147483647
Reject == -1

Digits == <<"0", "1", "2", "3", "4", "5", "6", "7", "8", "9">>
IsDigit(c) == \E i \in 1..10 : Digits[i] = c
DigitVal(c) == (CHOOSE i \in 1..10 : Digits[i] = c) - 1

UnitChars == {"s", "m", "h", "d", "w", "y"}
UnitMul(c) == CASE c = "s" -> 1 [] c = "m" -> 60 [] c = "h" -> 3600
                [] c = "d" -> 86400 [] c = "w" -> 604800 [] c = "y" -> 31536000

(***************************************************************************)
(* numerals                                                                *)
(***************************************************************************)
\* value of a digit string, Reject when it exceeds 31 bits (checked before every multiplication)
RECURSIVE NumFrom(_, _)
NumFrom(acc, s) ==
  IF s = <<>> THEN acc
  ELSE LET d == DigitVal(Head(s))
       IN IF acc > (MaxInt31 - d) \div 10 THEN Reject ELSE NumFrom(acc * 10 + d, Tail(s))

RECURSIVE DigitsOf(_)
DigitsOf(n) == IF n < 10 THEN <<Digits[n + 1]>> ELSE Append(DigitsOf(n \div 10), Digits[(n % 10) + 1])

RECURSIVE LeadDigits(_)
LeadDigits(s) == IF s = <<>> \/ ~IsDigit(Head(s)) THEN 0 ELSE 1 + LeadDigits(Tail(s))

(***************************************************************************)
(* durations                                                               *)
(***************************************************************************)
\* accepted: one or more digits (no redundant leading zero) followed by exactly one unit;
\* meaning: number x unit, which must fit in 31 bits
ParseDuration(s) ==
  LET i == LeadDigits(s)
  IN IF i = 0 \/ Len(s) # i + 1 \/ s[i + 1] \notin UnitChars THEN Reject
     ELSE LET x == NumFrom(0, SubSeq(s, 1, i))
              u == UnitMul(s[i + 1])
          IN IF x = Reject THEN Reject
             ELSE IF x = 0 /\ i # 1 THEN Reject
             ELSE IF x > MaxInt31 \div u THEN Reject
             ELSE x * u

\* strings whose treatment the properties leave open: a leading zero before further digits ("01s")
LeadingZero(s) == Len(s) >= 2 /\ s[1] = "0" /\ IsDigit(s[2])

\* the printer: largest dividing unit (any printer whose output parses back satisfies C19)
PrintDuration(d) ==
  IF d = 0 THEN <<"0", "s">>
  ELSE IF d % 31536000 = 0 THEN Append(DigitsOf(d \div 31536000), "y")
  ELSE IF d % 604800 = 0 THEN Append(DigitsOf(d \div 604800), "w")
  ELSE IF d % 86400 = 0 THEN Append(DigitsOf(d \div 86400), "d")
  ELSE IF d % 3600 = 0 THEN Append(DigitsOf(d \div 3600), "h")
  ELSE IF d % 60 = 0 THEN Append(DigitsOf(d \div 60), "m")
  ELSE Append(DigitsOf(d), "s")

(***************************************************************************)
(* retention lists  "step:retention,step:retention,..."                     *)
(***************************************************************************)
RECURSIVE SplitOn(_, _, _)
\* split s at every occurrence of ch; returns a sequence of pieces
SplitOn(s, ch, cur) ==
  IF s = <<>> THEN <<cur>>
  ELSE IF Head(s) = ch THEN <<cur>> \o SplitOn(Tail(s), ch, <<>>)
  ELSE SplitOn(Tail(s), ch, Append(cur, Head(s)))

\* one archive: both durations parse, are positive and the retention is a multiple of the step
ParseArchive(s) ==
  LET ps == SplitOn(s, ":", <<>>)
  IN IF Len(ps) # 2 THEN [ok |-> FALSE]
     ELSE LET st == ParseDuration(ps[1])
              rt == ParseDuration(ps[2])
          IN IF st = Reject \/ rt = Reject \/ st <= 0 \/ rt <= 0 \/ rt % st # 0 THEN [ok |-> FALSE]
             ELSE [ok |-> TRUE, step |-> st, n |-> rt \div st]

\* syntax only (the list rules of C07 are WhisperFormat!ValidLayout)
ParseArchiveList(s) ==
  IF s = <<>> THEN [ok |-> FALSE]
  ELSE LET ps == SplitOn(s, ",", <<>>)
           as == [i \in 1..Len(ps) |-> ParseArchive(ps[i])]
       IN IF \E i \in 1..Len(as) : ~as[i].ok THEN [ok |-> FALSE]
          ELSE [ok |-> TRUE, l |-> [i \in 1..Len(as) |-> [step |-> as[i].step, n |-> as[i].n]]]

RECURSIVE PrintArchiveList(_)
PrintArchiveList(l) ==
  IF l = <<>> THEN <<>>
  ELSE LET a == Head(l)
           one == PrintDuration(a.step) \o <<":">> \o PrintDuration(a.step * a.n)
       IN IF Tail(l) = <<>> THEN one ELSE one \o <<",">> \o PrintArchiveList(Tail(l))

(***************************************************************************)
(* timestamps  "YYYY-MM-DDTHH:MM:SSZ" (UTC), as (day since epoch, second of day) *)
(***************************************************************************)
MaxDay == 49710             \* 2^32 - 1 = 49710 days + 23295 seconds
MaxSodLastDay == 23295

DaysFromCivil(y, m, d) ==
  LET y2 == IF m <= 2 THEN y - 1 ELSE y
      era == y2 \div 400
      yoe == y2 - era * 400
      mp == (m + 9) % 12
      doy == (153 * mp + 2) \div 5 + d - 1
      doe == yoe * 365 + yoe \div 4 - yoe \div 100 + doy
  IN era * 146097 + doe - 719468

CivilFromDays(z) ==
  LET z2 == z + 719468
      era == z2 \div 146097
      doe == z2 - era * 146097
      yoe == (doe - doe \div 1460 + doe \div 36524 - doe \div 146096) \div 365
      doy == doe - (365 * yoe + yoe \div 4 - yoe \div 100)
      mp == (5 * doy + 2) \div 153
      d == doy - (153 * mp + 2) \div 5 + 1
      m == IF mp < 10 THEN mp + 3 ELSE mp - 9
      y == yoe + era * 400 + (IF m <= 2 THEN 1 ELSE 0)
  IN <<y, m, d>>

IsLeap(y) == (y % 4 = 0 /\ y % 100 # 0) \/ y % 400 = 0
DaysIn(y, m) == IF m = 2 THEN (IF IsLeap(y) THEN 29 ELSE 28)
                ELSE IF m \in {4, 6, 9, 11} THEN 30 ELSE 31

Pad(n, w) == LET ds == DigitsOf(n) IN [i \in 1..(w - Len(ds)) |-> "0"] \o ds

PrintTimestamp(day, sod) ==
  LET c == CivilFromDays(day)
  IN Pad(c[1], 4) \o <<"-">> \o Pad(c[2], 2) \o <<"-">> \o Pad(c[3], 2) \o <<"T">> \o
     Pad(sod \div 3600, 2) \o <<":">> \o Pad((sod % 3600) \div 60, 2) \o <<":">> \o Pad(sod % 60, 2) \o <<"Z">>

TsReject == <<-1>>
AllDigits(s) == \A i \in 1..Len(s) : IsDigit(s[i])
\* <<day, sod>> or Reject; instants outside the 32-bit range are rejected (no wrap-around)
ParseTimestamp(s) ==
  IF Len(s) # 20 \/ s[5] # "-" \/ s[8] # "-" \/ s[11] # "T" \/ s[14] # ":" \/ s[17] # ":" \/ s[20] # "Z" THEN TsReject
  ELSE IF ~AllDigits(SubSeq(s, 1, 4) \o SubSeq(s, 6, 7) \o SubSeq(s, 9, 10) \o SubSeq(s, 12, 13) \o SubSeq(s, 15, 16) \o SubSeq(s, 18, 19)) THEN TsReject
  ELSE LET y == NumFrom(0, SubSeq(s, 1, 4))
           m == NumFrom(0, SubSeq(s, 6, 7))
           d == NumFrom(0, SubSeq(s, 9, 10))
           hh == NumFrom(0, SubSeq(s, 12, 13))
           mm == NumFrom(0, SubSeq(s, 15, 16))
           ss == NumFrom(0, SubSeq(s, 18, 19))
       IN IF m < 1 \/ m > 12 \/ d < 1 \/ hh > 23 \/ mm > 59 \/ ss > 59 THEN TsReject
          ELSE IF d > DaysIn(y, m) THEN TsReject
          ELSE LET day == DaysFromCivil(y, m, d)
                   sod == hh * 3600 + mm * 60 + ss
               IN IF day < 0 \/ day > MaxDay \/ (day = MaxDay /\ sod > MaxSodLastDay) THEN TsReject
                  ELSE <<day, sod>>

(***************************************************************************)
(* method names                                                            *)
(***************************************************************************)
\* every declared method value has a name (7 and 8 are declared but not storable: C07 rejects them, C19 still prints and parses them)
MethodNames == [m \in 1..8 |-> CASE m = 1 -> "average" [] m = 2 -> "sum" [] m = 3 -> "last"
                                 [] m = 4 -> "max" [] m = 5 -> "min" [] m = 6 -> "first"
                                 [] m = 7 -> "mix" [] m = 8 -> "percentile"]

(***************************************************************************)
(* Laws (TLC, bounded domains)                                             *)
(***************************************************************************)
\* durations around every unit boundary up to two years, and the 31-bit edge
DurDom == UNION {{k * u - 1, k * u, k * u + 1} : k \in 0..24, u \in {1, 60, 3600, 86400, 604800, 31536000}}
          \cup (0..130) \cup {MaxInt31, MaxInt31 - 1, 2147472000, 2146694400}
DurationRoundTrip == \A d \in {x \in DurDom : x >= 0} : ParseDuration(PrintDuration(d)) = d

Alphabet == {"0", "1", "2", "9", "s", "m", "h", "d", "w", "y", ":", ",", "-", "x"}
CONSTANT MaxLen
Strings == UNION {[1..n -> Alphabet] : n \in 0..MaxLen}

\* accepted => exact meaning, and the listed rejections
ExactMeaning ==
  \A s \in Strings :
    LET v == ParseDuration(s)
    IN /\ v # Reject =>
            /\ Len(s) >= 2 /\ s[Len(s)] \in UnitChars /\ AllDigits(SubSeq(s, 1, Len(s) - 1))
            /\ v = NumFrom(0, SubSeq(s, 1, Len(s) - 1)) * UnitMul(s[Len(s)])
       /\ (s = <<>> \/ (Len(s) >= 1 /\ s[Len(s)] \notin UnitChars) \/ (Len(s) >= 1 /\ s[1] = "-")
           \/ (Len(s) >= 2 /\ s[Len(s) - 1] \in UnitChars)) => v = Reject

LayoutDom == {l \in UNION {[1..k -> {[step |-> s, n |-> n] : s \in {1, 10, 60, 300, 3600, 86400}, n \in {1, 6, 60, 288, 365}}] : k \in 1..2} : TRUE}
LayoutRoundTrip == \A l \in LayoutDom : ParseArchiveList(PrintArchiveList(l)) = [ok |-> TRUE, l |-> l]

SodDom == {0, 1, 59, 60, 3599, 3600, 43200, 86399}
CONSTANT DayStride
DayDom == {d \in 0..MaxDay : d % DayStride = 0 \/ d < 800 \/ d > MaxDay - 400}
           \cup {10956, 10957, 11015, 11016, 11017, 11322, 11323, 47540, 47541, 47542, 47600, 47601}   \* 2000-01-01, 2000-02-29, 2100-02-28/03-01
TimestampRoundTrip ==
  \A d \in DayDom : \A s \in SodDom :
    (d < MaxDay \/ s <= MaxSodLastDay) =>
      /\ ParseTimestamp(PrintTimestamp(d, s)) = <<d, s>>
      /\ DaysFromCivil(CivilFromDays(d)[1], CivilFromDays(d)[2], CivilFromDays(d)[3]) = d
TimestampRange ==
  /\ ParseTimestamp(PrintTimestamp(MaxDay, MaxSodLastDay)) = <<MaxDay, MaxSodLastDay>>
  /\ ParseTimestamp(PrintTimestamp(MaxDay, MaxSodLastDay + 1)) = TsReject          \* 2106-02-07T06:28:16Z
  /\ ParseTimestamp(PrintTimestamp(MaxDay + 1, 0)) = TsReject
  /\ ParseTimestamp(<<"1","9","6","9","-","1","2","-","3","1","T","2","3",":","5","9",":","5","9","Z">>) = TsReject
  /\ ParseTimestamp(<<"2","2","0","0","-","0","1","-","0","1","T","0","0",":","0","0",":","0","0","Z">>) = TsReject
  /\ ParseTimestamp(<<"2","0","2","1","-","0","2","-","2","9","T","0","0",":","0","0",":","0","0","Z">>) = TsReject

(***************************************************************************)
(* Export of the enumerated strings with their specified meaning           *)
(***************************************************************************)
CONSTANT Export
Boundary == {<<"2","1","4","7","4","8","3","6","4","7","s">>, <<"2","1","4","7","4","8","3","6","4","8","s">>,
             <<"3","5","7","9","1","3","9","4","m">>, <<"3","5","7","9","1","3","9","5","m">>,
             <<"5","9","6","5","2","3","h">>, <<"5","9","6","5","2","4","h">>,
             <<"2","4","8","5","5","d">>, <<"2","4","8","5","6","d">>,
             <<"3","5","5","0","w">>, <<"3","5","5","1","w">>, <<"6","8","y">>, <<"6","9","y">>,
             <<"9","9","9","9","9","9","9","9","9","9","9","s">>, <<"4","2","9","4","9","6","7","2","9","7","s">>,
             <<"+","1","s">>, <<"1"," ","s">>, <<"1","S">>, <<"1",".","5","s">>, <<"1","0","0","0","0","0","y">>}
\* archive strings "step:retention" built from a small set of duration pieces (incl. one-point archives, a zero,
\* a retention that is no multiple, malformed pieces) and two-element lists of them
DurPieces == {<<"1","s">>, <<"2","s">>, <<"0","s">>, <<"1","0","s">>, <<"6","0","s">>, <<"1","m">>, <<"2","m">>, <<"9","0","s">>,
              <<"1","h">>, <<"1","d">>, <<"1","w">>, <<"1","y">>, <<"6","8","y">>, <<"6","9","y">>, <<"1">>, <<"s">>, <<>>, <<"-","1","s">>}
ArchStrings == {a \o <<":">> \o b : a \in DurPieces, b \in DurPieces} \cup DurPieces \cup {<<"1","s",":","2","s",":","4","s">>}
ArchView(s) == LET r == ParseArchiveList(s) IN IF r.ok THEN r.l ELSE <<>>
\* the real retention-string parser also applies the list rules of C07: accepted = syntax ok and a valid layout
Fmt == INSTANCE WhisperFormat WITH Deep <- FALSE, Export <- "none", dummy <- 0
ArchAccepted(s) == LET r == ParseArchiveList(s) IN r.ok /\ Fmt!ValidLayout(r.l)
ListPieces == {<<"1","s",":","1","s">>, <<"1","s",":","2","s">>, <<"1","m",":","1","h">>, <<"1","s",":","3">>, <<>>}
ExportStrings ==
  IF Export = "strings"
  THEN /\ \A s \in Strings \cup Boundary :
            PrintT(ToJson([kind |-> "dur", s |-> s, v |-> ParseDuration(s), open |-> LeadingZero(s)]))
       /\ \A s \in ArchStrings : PrintT(ToJson([kind |-> "arch", s |-> s, ok |-> ArchAccepted(s), l |-> ArchView(s)]))
       /\ \A a \in ListPieces, b \in ListPieces :
            LET s == a \o <<",">> \o b IN PrintT(ToJson([kind |-> "arch", s |-> s, ok |-> ArchAccepted(s), l |-> ArchView(s)]))
       /\ \A l \in LayoutDom : PrintT(ToJson([kind |-> "lay", l |-> l, s |-> PrintArchiveList(l), ok |-> Fmt!ValidLayout(l)]))
  ELSE TRUE

StrCount == PrintT(<<"TEXT_CASES", Cardinality(Strings) + Cardinality(Boundary), Cardinality(DayDom) * Cardinality(SodDom),
                     Cardinality(DurDom), Cardinality(LayoutDom)>>)

VARIABLE dummy
Init == dummy = 0
Next == UNCHANGED dummy
Spec == Init /\ [][Next]_dummy
=============================================================================
