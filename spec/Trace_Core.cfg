SPECIFICATION Spec
CONSTANTS
  Quirks = {}
  Prop = "ALL"
POSTCONDITION Accepted
CHECK_DEADLOCK FALSE
