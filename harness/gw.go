package main

import (
	"fmt"
	"math"
	"sync"
	"time"

	gw "github.com/go-graphite/go-whisper"
)

// go-whisper (the reference implementation) as a second reader of the same bytes.
// Its clock is the package variable gw.Now, so reads are serialised.

var gwMu sync.Mutex

type gwFile struct {
	w   *gw.Whisper
	now uint32
}

func gwOpen(path string, now uint32) *gwFile {
	w, err := gw.OpenWithOptions(path, &gw.Options{FLock: false})
	if err != nil {
		return nil
	}
	return &gwFile{w: w, now: now}
}

func (g *gwFile) Close() { g.w.Close() }

func (g *gwFile) metaMismatch(cfg MCfg) string {
	rets := g.w.Retentions()
	if len(rets) != len(cfg.Layout) {
		return fmt.Sprintf("reference sees %d archives, want %d", len(rets), len(cfg.Layout))
	}
	for i, r := range rets {
		if int64(r.SecondsPerPoint()) != cfg.Layout[i].Step || int64(r.NumberOfPoints()) != cfg.Layout[i].N {
			return fmt.Sprintf("archive %d: reference sees %d:%d", i, r.SecondsPerPoint(), r.NumberOfPoints())
		}
	}
	if int(g.w.AggregationMethod()) != int(methodNum[cfg.Method]) {
		return fmt.Sprintf("reference sees aggregation %v", g.w.AggregationMethod())
	}
	if g.w.XFilesFactor() != xffFloat(cfg.Xff) {
		return fmt.Sprintf("reference sees xFilesFactor %v", g.w.XFilesFactor())
	}
	return ""
}

// fetchMismatch: best-archive fetch of a non-degenerate window by the reference reader
// against the specification's series.
func (g *gwFile) fetchMismatch(r gridRow, m Mapping) string {
	gwMu.Lock()
	gw.Now = func() time.Time { return time.Unix(int64(g.now), 0) }
	ts, err := func() (ts *gw.TimeSeries, err error) {
		defer func() {
			if rc := recover(); rc != nil {
				err = fmt.Errorf("panic: %v", rc)
			}
		}()
		return g.w.Fetch(int(m.B+r.F), int(m.B+r.U))
	}()
	gwMu.Unlock()
	if err != nil {
		return "reference reader: " + err.Error()
	}
	if ts == nil {
		return "reference reader returns no series"
	}
	if int64(ts.FromTime()) != m.B+r.From || int64(ts.UntilTime()) != m.B+r.Until || int64(ts.Step()) != r.Stp {
		return fmt.Sprintf("reference series from=%d until=%d step=%d, specification says %d %d %d",
			ts.FromTime(), ts.UntilTime(), ts.Step(), m.B+r.From, m.B+r.Until, r.Stp)
	}
	vals := ts.Values()
	if len(vals) != len(r.Vals) {
		return fmt.Sprintf("reference returns %d values, specification says %d", len(vals), len(r.Vals))
	}
	for i := range vals {
		w := m.V(r.Vals[i])
		if math.IsNaN(w) != math.IsNaN(vals[i]) || (!math.IsNaN(w) && w != vals[i]) {
			return fmt.Sprintf("reference value %d is %v, specification says %v", i, vals[i], w)
		}
	}
	return ""
}
