package main

import (
	"bufio"
	"bytes"
	"encoding/binary"
	"encoding/json"
	"errors"
	"fmt"
	"io/ioutil"
	"math"
	"math/rand"
	"os"
	"os/exec"
	"path/filepath"
	"runtime"
	"runtime/debug"
	"strings"
	"syscall"

	wt "github.com/hnakamur/whispertool"
)

// ---------------------------------------------------------------------------
// C14: framing cases of WhisperCodec.tla instantiated with adversarial values
// ---------------------------------------------------------------------------

var advFloats = []uint64{
	0x7ff8000000000001, 0x7ff0000000000001, 0xfff8000000000000, 0x7ff8dead0000beef, // quiet / signalling / negative NaN, payload
	0x0000000000000000, 0x8000000000000000, 0x7ff0000000000000, 0xfff0000000000000, // +-0, +-Inf
	0x0000000000000001, 0x000fffffffffffff, 0x7fefffffffffffff, 0xffefffffffffffff, // subnormals, +-max
	0x3fd3333333333334, 0x3fb999999999999a, 0x4340000000000001, 0xc08f400000000000, // 0.30000000000000004, 0.1, 2^53+2, -1000
}
var advTimes = []uint32{0, 1, 0x7fffffff, 0x80000000, 0xffffffff, 1600000000}

type frameCase struct {
	Kind     string            `json:"kind"`
	Shape    []json.RawMessage `json:"shape"`
	Trailing int               `json:"trailing"`
	B        int               `json:"b"`
	Len      int               `json:"len"`
	Out      struct {
		K    string `json:"k"`
		W    int    `json:"w"`
		Rest int    `json:"rest"`
	} `json:"out"`
}

func shapeOf(fc *frameCase) (string, int) {
	var name string
	json.Unmarshal(fc.Shape[0], &name)
	n := 0
	if len(fc.Shape) > 1 {
		json.Unmarshal(fc.Shape[1], &n)
	}
	return name, n
}

// fields of the object buildShape built last (what a decoded copy must show through its accessors: the encoding alone
// cannot tell, since a field the encoder derives instead of writing round-trips through the bytes unchanged)
var lastBuilt func(obj wt.AppenderTo) string

// build an object of the shape, its encoding and a decoder for fresh objects
func buildShape(name string, n int, salt int) (enc []byte, decode func(src []byte) ([]byte, wt.AppenderTo, error)) {
	lastBuilt = nil
	fv := func(i int) wt.Value { return wt.Value(math.Float64frombits(advFloats[(i+salt)%len(advFloats)])) }
	tv := func(i int) wt.Timestamp { return wt.Timestamp(advTimes[(i+salt)%len(advTimes)]) }
	switch name {
	case "header":
		l := make(wt.ArchiveInfoList, n)
		step, np := wt.Duration(1+salt%3), uint32(12)
		for i := 0; i < n; i++ {
			l[i] = wt.NewArchiveInfo(step, np)
			step *= 4
			np += 5
		}
		h, err := wt.NewHeader(wt.AggregationMethod(1+salt%6), []float32{0, 0.5, 1, 0.3}[salt%4], l)
		if err != nil {
			panic(err)
		}
		return h.AppendTo(nil), func(src []byte) ([]byte, wt.AppenderTo, error) {
			o := &wt.Header{}
			r, err := o.TakeFrom(src)
			return r, o, err
		}
	case "series":
		vals := make([]wt.Value, n)
		for i := range vals {
			vals[i] = fv(i)
		}
		step := wt.Duration([]int32{1, 60, 0x7fffffff / 4, 1 << 30}[salt%4])
		from := wt.Timestamp([]uint32{0, 1600000000, 5, 0}[salt%4]) // salt%4 == 3: the series spans 2^31 seconds or more
		if salt%4 == 3 && n > 1 {
			step = wt.Duration((3 << 30) / n) // n x step lies in [2^31, 2^32): beyond the int32 range of Duration
		}
		until := wt.Timestamp(uint32(from) + uint32(n)*uint32(step))
		if salt%3 == 1 && step > 1 && uint64(from)+uint64(n)*uint64(step)+uint64(step)/2 <= math.MaxUint32 {
			// a range that is no multiple of the step (floor(range/step) values): until is a field of its own, not derived
			until = wt.Timestamp(uint32(until) + uint32(step)/2)
		}
		ts := wt.NewTimeSeries(from, until, step, vals)
		lastBuilt = func(obj wt.AppenderTo) string {
			o, ok := obj.(*wt.TimeSeries)
			if !ok {
				return "not a series"
			}
			if o.FromTime() != from || o.UntilTime() != until || o.Step() != step || len(o.Values()) != len(vals) {
				return fmt.Sprintf("decoded series has from=%d until=%d step=%d %d values, the encoded one from=%d until=%d step=%d %d values",
					o.FromTime(), o.UntilTime(), o.Step(), len(o.Values()), from, until, step, len(vals))
			}
			return ""
		}
		return ts.AppendTo(nil), func(src []byte) ([]byte, wt.AppenderTo, error) {
			o := &wt.TimeSeries{}
			r, err := o.TakeFrom(src)
			return r, o, err
		}
	case "points":
		pts := make(wt.Points, n)
		for i := range pts {
			pts[i] = wt.Point{Time: tv(i), Value: fv(i + 3)}
		}
		return pts.AppendTo(nil), func(src []byte) ([]byte, wt.AppenderTo, error) {
			o := &wt.Points{}
			r, err := o.TakeFrom(src)
			return r, o, err
		}
	case "point":
		p := wt.Point{Time: tv(salt), Value: fv(salt)}
		return p.AppendTo(nil), func(src []byte) ([]byte, wt.AppenderTo, error) {
			o := &wt.Point{}
			r, err := o.TakeFrom(src)
			return r, o, err
		}
	case "value":
		v := fv(salt)
		return v.AppendTo(nil), func(src []byte) ([]byte, wt.AppenderTo, error) {
			var o wt.Value
			r, err := o.TakeFrom(src)
			return r, &o, err
		}
	case "timestamp":
		t := tv(salt)
		return t.AppendTo(nil), func(src []byte) ([]byte, wt.AppenderTo, error) {
			var o wt.Timestamp
			r, err := o.TakeFrom(src)
			return r, &o, err
		}
	case "duration":
		d := wt.Duration(int32(advTimes[salt%len(advTimes)]))
		return d.AppendTo(nil), func(src []byte) ([]byte, wt.AppenderTo, error) {
			var o wt.Duration
			r, err := o.TakeFrom(src)
			return r, &o, err
		}
	}
	panic("shape " + name)
}

// a decoder that keeps using ONE receiver for every message it is given
func reusingDecoder(name string) func(src []byte) ([]byte, wt.AppenderTo, error) {
	switch name {
	case "header":
		o := &wt.Header{}
		return func(src []byte) ([]byte, wt.AppenderTo, error) { r, err := o.TakeFrom(src); return r, o, err }
	case "series":
		o := &wt.TimeSeries{}
		return func(src []byte) ([]byte, wt.AppenderTo, error) { r, err := o.TakeFrom(src); return r, o, err }
	case "points":
		o := &wt.Points{}
		return func(src []byte) ([]byte, wt.AppenderTo, error) { r, err := o.TakeFrom(src); return r, o, err }
	case "point":
		o := &wt.Point{}
		return func(src []byte) ([]byte, wt.AppenderTo, error) { r, err := o.TakeFrom(src); return r, o, err }
	case "value":
		var o wt.Value
		return func(src []byte) ([]byte, wt.AppenderTo, error) { r, err := o.TakeFrom(src); return r, &o, err }
	case "timestamp":
		var o wt.Timestamp
		return func(src []byte) ([]byte, wt.AppenderTo, error) { r, err := o.TakeFrom(src); return r, &o, err }
	case "duration":
		var o wt.Duration
		return func(src []byte) ([]byte, wt.AppenderTo, error) { r, err := o.TakeFrom(src); return r, &o, err }
	}
	panic("shape " + name)
}

// codec <export-file> <result-json>
func runCodec(args []string) int {
	f, err := os.Open(args[0])
	if err != nil {
		fmt.Fprintln(os.Stderr, err)
		return 2
	}
	defer f.Close()
	sc := bufio.NewScanner(f)
	sc.Buffer(make([]byte, 1<<20), 1<<26)
	var viols []violation
	var samples []interface{}
	n := 0
	rnd := rand.New(rand.NewSource(7))
	var shapes []frameCase
	for sc.Scan() {
		b := sc.Bytes()
		if len(b) < 5 || b[0] != '"' {
			continue
		}
		var s string
		if json.Unmarshal(b, &s) != nil {
			continue
		}
		var fc frameCase
		if json.Unmarshal([]byte(s), &fc) != nil || fc.Kind != "frame" {
			continue
		}
		name, cnt := shapeOf(&fc)
		if fc.B == fc.Len && fc.Trailing == 0 {
			shapes = append(shapes, fc)
		}
		for salt := 0; salt < len(advFloats); salt++ {
			n++
			enc, dec := buildShape(name, cnt, salt)
			desc := map[string]interface{}{"shape": name, "count": cnt, "salt": salt, "b": fc.B, "trailing": fc.Trailing}
			bad := func(d string) {
				if len(viols) < 40 {
					viols = append(viols, violation{Prop: "C14", What: "codec framing", Detail: d, Line: desc})
				}
			}
			if len(enc) != fc.Len {
				bad(fmt.Sprintf("encoding has %d bytes, specification says %d", len(enc), fc.Len))
				continue
			}
			trail := make([]byte, fc.Trailing)
			rnd.Read(trail)
			all := append(append([]byte{}, enc...), trail...)
			src := append([]byte{}, all[:fc.B]...)
			var rest []byte
			var obj wt.AppenderTo
			var derr error
			pan := ""
			func() {
				defer func() {
					if r := recover(); r != nil {
						pan = fmt.Sprint(r)
					}
				}()
				rest, obj, derr = dec(src)
			}()
			if n%701 == 5 && len(samples) < 4 {
				samples = append(samples, desc)
			}
			if pan != "" {
				bad("decoder panics: " + pan)
				continue
			}
			if !bytes.Equal(src, all[:fc.B]) {
				bad("decoder modified its input")
				continue
			}
			switch fc.Out.K {
			case "ok":
				if derr != nil {
					bad(fmt.Sprintf("complete message rejected: %v", derr))
					continue
				}
				if !bytes.Equal(rest, all[fc.Len:fc.B]) {
					bad(fmt.Sprintf("remainder has %d bytes / differs, specification says the %d trailing bytes untouched", len(rest), fc.Out.Rest))
					continue
				}
				if re := obj.AppendTo(nil); !bytes.Equal(re, enc) {
					bad(fmt.Sprintf("decoded object re-encodes to %x, original %x", re, enc))
					continue
				}
				if lastBuilt != nil {
					if d := lastBuilt(obj); d != "" {
						bad("decoding does not yield an equal object: " + d)
						continue
					}
				}
			case "want":
				var werr *wt.WantLargerBufferError
				if derr == nil {
					bad("decoder succeeds on a proper prefix")
					continue
				}
				if !errors.As(derr, &werr) {
					bad(fmt.Sprintf("proper prefix answered with %v instead of a larger-buffer request", derr))
					continue
				}
				if werr.WantedBufSize != fc.Out.W {
					// the property: larger than what was given, no larger than the complete message
					if !(werr.WantedBufSize > fc.B && werr.WantedBufSize <= fc.Len) {
						bad(fmt.Sprintf("asks for %d bytes given %d of a %d-byte message", werr.WantedBufSize, fc.B, fc.Len))
						continue
					}
				}
			}
		}
	}
	// concatenations: every pair of shapes decodes in sequence
	pairs := 0
	for i := range shapes {
		for j := range shapes {
			n1, c1 := shapeOf(&shapes[i])
			n2, c2 := shapeOf(&shapes[j])
			e1, d1 := buildShape(n1, c1, i+j)
			e2, d2 := buildShape(n2, c2, i*3+j)
			all := append(append([]byte{}, e1...), e2...)
			pairs++
			safe := func(d func(src []byte) ([]byte, wt.AppenderTo, error), src []byte) (r []byte, o wt.AppenderTo, err error) {
				defer func() {
					if rc := recover(); rc != nil {
						err = fmt.Errorf("decoder panics: %v", rc)
					}
				}()
				return d(src)
			}
			r1, o1, err1 := safe(d1, all)
			if err1 != nil || !bytes.Equal(r1, e2) || !bytes.Equal(o1.AppendTo(nil), e1) {
				viols = append(viols, violation{Prop: "C14", What: "concatenated messages", Detail: fmt.Sprintf("first of %s+%s: err=%v", n1, n2, err1),
					Line: map[string]interface{}{"first": n1, "second": n2}})
				continue
			}
			r2, o2, err2 := safe(d2, r1)
			if err2 != nil || len(r2) != 0 || !bytes.Equal(o2.AppendTo(nil), e2) {
				viols = append(viols, violation{Prop: "C14", What: "concatenated messages", Detail: fmt.Sprintf("second of %s+%s: err=%v", n1, n2, err2),
					Line: map[string]interface{}{"first": n1, "second": n2}})
			}
		}
	}
	// encoding appends: what AppendTo adds depends on the object only - not on what the destination buffer held before
	// (a reused scratch buffer re-sliced to length 0 or 7 still has old bytes in its spare capacity)
	dirtied := 0
	appendClean := func(what string, desc map[string]interface{}, obj wt.AppenderTo, enc []byte) {
		for _, keep := range []int{0, 7} {
			dirty := bytes.Repeat([]byte{0xa5}, 8192)
			var out []byte
			pan := ""
			func() {
				defer func() {
					if rc := recover(); rc != nil {
						pan = fmt.Sprint(rc)
					}
				}()
				out = obj.AppendTo(dirty[:keep])
			}()
			dirtied++
			if pan != "" || len(out) != keep+len(enc) || !bytes.Equal(out[keep:], enc) || !bytes.Equal(out[:keep], bytes.Repeat([]byte{0xa5}, keep)) {
				if len(viols) < 40 {
					viols = append(viols, violation{Prop: "C14", What: "encoding into a used buffer",
						Detail: fmt.Sprintf("%s appended to a buffer of length %d with old bytes in its capacity: got %d bytes (panic %q), appended to nil it gives %x", what, keep, len(out)-keep, pan, enc),
						Line:   desc})
				}
				return
			}
		}
	}
	for i := range shapes {
		name, cnt := shapeOf(&shapes[i])
		enc, dec := buildShape(name, cnt, i)
		if _, obj, err := dec(enc); err == nil {
			appendClean(fmt.Sprintf("%s with %d elements", name, cnt), map[string]interface{}{"shape": name, "count": cnt, "dirty": true}, obj, enc)
		}
	}
	{
		// the absent series (a nil *TimeSeries, what a fetch outside the retention yields)
		var absent *wt.TimeSeries
		enc := absent.AppendTo(nil)
		appendClean("the absent series", map[string]interface{}{"shape": "absent-series", "dirty": true}, absent, enc)
		o := &wt.TimeSeries{}
		if rest, err := o.TakeFrom(append(append([]byte{}, enc...), 1, 2, 3)); err != nil || len(rest) != 3 || !bytes.Equal(o.AppendTo(nil), enc) {
			viols = append(viols, violation{Prop: "C14", What: "codec framing", Detail: fmt.Sprintf("the absent series (%x) does not round-trip: err=%v", enc, err),
				Line: map[string]interface{}{"shape": "absent-series"}})
		}
	}
	// a receiver that already holds an object: what a decoder yields depends on the bytes only, so decoding a message
	// into a receiver used before (longer, shorter, equal) must give the same object as decoding into a fresh one
	reused := 0
	for i := range shapes {
		for j := range shapes {
			n1, c1 := shapeOf(&shapes[i])
			n2, c2 := shapeOf(&shapes[j])
			if n1 != n2 {
				continue
			}
			e1, _ := buildShape(n1, c1, i+j)
			e2, _ := buildShape(n2, c2, i*3+j)
			dec := reusingDecoder(n1)
			reused++
			for step, e := range [][]byte{e1, e2, e1} {
				var rest []byte
				var obj wt.AppenderTo
				var err error
				func() {
					defer func() {
						if rc := recover(); rc != nil {
							err = fmt.Errorf("decoder panics: %v", rc)
						}
					}()
					rest, obj, err = dec(append(append([]byte{}, e...), 0xde, 0xad))
				}()
				if err != nil || len(rest) != 2 || !bytes.Equal(obj.AppendTo(nil), e) {
					got := []byte{}
					if err == nil {
						got = obj.AppendTo(nil)
					}
					if len(viols) < 40 {
						viols = append(viols, violation{Prop: "C14", What: "decoding into a used receiver",
							Detail: fmt.Sprintf("%s with %d then %d elements, message %d of the sequence: err=%v, decoded object re-encodes to %d bytes, the message has %d", n1, c1, c2, step+1, err, len(got), len(e)),
							Line:   map[string]interface{}{"shape": n1, "first": c1, "second": c2}})
					}
					break
				}
			}
		}
	}
	if n == 0 {
		fmt.Fprintln(os.Stderr, "no framing cases exported")
		return 2
	}
	pairs += reused + dirtied
	if len(viols) > 40 {
		viols = viols[:40]
	}
	res := map[string]interface{}{"evaluations": n + pairs, "frame_cases": n, "pairs": pairs, "violations": append([]violation{}, viols...), "samples": samples}
	b, _ := json.MarshalIndent(res, "", " ")
	ioutil.WriteFile(args[1], b, 0644)
	return 0
}

// ---------------------------------------------------------------------------
// C15: hostile field-class grid + seeded mutations, executed in a child with RLIMIT_AS
// ---------------------------------------------------------------------------

type hostileCase struct {
	Kind    string   `json:"kind"`
	Decoder string   `json:"decoder"`
	Count   string   `json:"count"`
	Step    string   `json:"step"`
	Range   string   `json:"range"`
	Avail   string   `json:"avail"`
	Allowed []string `json:"allowed"`
	Factor  int64    `json:"factor"`
	Const   int64    `json:"const"`
}

func countVal(c string, present uint64) uint64 {
	switch c {
	case "zero":
		return 0
	case "one":
		return 1
	case "small":
		return 3
	case "exact":
		return present
	case "exactplus1":
		return present + 1
	case "max31":
		return 1<<31 - 1
	case "two31":
		return 1 << 31
	case "max32":
		return 1<<32 - 1
	case "wrap32":
		return 0x15555556
	case "wrap64":
		return 0x1555555555555556
	case "sign64":
		return 0x8000000000000000
	case "max64":
		return 0xFFFFFFFFFFFFFFFF
	}
	panic(c)
}

func availBytes(a string, exact int) int {
	if exact > 4096 {
		exact = 4096
	}
	switch a {
	case "none":
		return 0
	case "partial":
		if exact > 7 {
			return 7
		}
		return exact / 2
	case "exact":
		return exact
	case "extra":
		return exact + 9
	}
	panic(a)
}

func hostileBytes(hc *hostileCase) []byte {
	var b []byte
	u32 := func(v uint32) { var x [4]byte; binary.BigEndian.PutUint32(x[:], v); b = append(b, x[:]...) }
	u64 := func(v uint64) { var x [8]byte; binary.BigEndian.PutUint64(x[:], v); b = append(b, x[:]...) }
	switch hc.Decoder {
	case "header":
		present := uint64(2)
		cnt := countVal(hc.Count, present)
		u32(1)
		u32(60 * 100)
		u32(math.Float32bits(0.5))
		u32(uint32(cnt))
		k := cnt
		if k > 300 {
			k = 300
		}
		if hc.Count == "exactplus1" {
			k = present
		}
		body := []byte{}
		off := uint32(16 + 12*uint32(cnt))
		step := uint32(1)
		for i := uint64(0); i < k; i++ {
			var x [12]byte
			binary.BigEndian.PutUint32(x[0:], off)
			binary.BigEndian.PutUint32(x[4:], step)
			binary.BigEndian.PutUint32(x[8:], 100)
			body = append(body, x[:]...)
			off += 1200
			step *= 2
		}
		n := availBytes(hc.Avail, len(body))
		for len(body) < n {
			body = append(body, 0xAB)
		}
		b = append(b, body[:n]...)
	case "series":
		step := map[string]uint32{"zero": 0, "one": 1, "minus1": 0xffffffff, "huge": 0x7fffffff, "normal": 10}[hc.Step]
		var from, until uint32
		switch hc.Range {
		case "lt":
			from, until = 1000, 1000+40
		case "eq":
			from, until = 5000, 5000
		case "gt":
			from, until = 5000, 4000
		case "span32":
			from, until = 0, 0xffffffff
		}
		u32(from)
		u32(until)
		u32(step)
		exact := 0
		if step != 0 && int32(step) > 0 && until >= from {
			exact = int((uint64(until-from) / uint64(step)) * 8)
		}
		n := availBytes(hc.Avail, exact)
		if hc.Avail != "none" && n == 0 {
			n = map[string]int{"partial": 5, "exact": 16, "extra": 25}[hc.Avail]
		}
		for i := 0; i < n; i++ {
			b = append(b, byte(i*7))
		}
	case "points":
		present := uint64(2)
		cnt := countVal(hc.Count, present)
		u64(cnt)
		exact := int(present * 12)
		if cnt < present {
			exact = int(cnt * 12)
		}
		n := availBytes(hc.Avail, exact)
		for i := 0; i < n; i++ {
			b = append(b, byte(i*5))
		}
	}
	return b
}

type decodeResult struct {
	Class string `json:"class"`
	W     int    `json:"w"`
	Msg   string `json:"msg"`
	Alloc uint64 `json:"alloc"`
}

func decodeHostile(decoder string, data []byte) (res decodeResult) {
	var ms0, ms1 runtime.MemStats
	runtime.ReadMemStats(&ms0)
	func() {
		defer func() {
			if r := recover(); r != nil {
				res.Class, res.Msg = "panic", fmt.Sprint(r)
			}
		}()
		var err error
		switch decoder {
		case "header":
			o := &wt.Header{}
			_, err = o.TakeFrom(data)
		case "series":
			o := &wt.TimeSeries{}
			_, err = o.TakeFrom(data)
			if err == nil && len(o.Values())*8 > len(data) {
				err = nil
				res.Msg = "series longer than its input"
				res.Class = "panic"
				return
			}
		case "points":
			o := &wt.Points{}
			_, err = o.TakeFrom(data)
		}
		if err == nil {
			res.Class = "ok"
			return
		}
		var werr *wt.WantLargerBufferError
		if errors.As(err, &werr) {
			res.Class, res.W = "want", werr.WantedBufSize
			return
		}
		res.Class, res.Msg = "err", err.Error()
	}()
	runtime.ReadMemStats(&ms1)
	res.Alloc = ms1.TotalAlloc - ms0.TotalAlloc
	return res
}

// operations on a file given as bytes: Open, then every read/write entry point
func fileHostile(path string, data []byte) (res decodeResult) {
	if err := ioutil.WriteFile(path, data, 0644); err != nil {
		panic(err)
	}
	defer os.Remove(path)
	var ms0, ms1 runtime.MemStats
	runtime.ReadMemStats(&ms0)
	func() {
		defer func() {
			if r := recover(); r != nil {
				res.Class, res.Msg = "panic", fmt.Sprint(r)
			}
		}()
		db, err := wt.Open(path, wt.WithoutFlock())
		if err != nil {
			res.Class, res.Msg = "err", err.Error()
			return
		}
		defer db.Close()
		res.Class = "ok"
		now := wt.Timestamp(1600000000)
		k := len(db.ArchiveInfoList())
		for a := -1; a < k; a++ {
			ts, err := db.FetchFromArchive(a, 0, now, now)
			if err == nil && ts != nil {
				_ = ts.Points()
			}
			db.FetchFromArchive(a, now-50, now-50, now)
		}
		for a := 0; a < k; a++ {
			// windows around the interval held in the archive's first slot and around the retention edge
			ai := db.ArchiveInfoList()[a]
			step := uint32(ai.SecondsPerPoint())
			if raw, err := db.GetAllRawUnsortedPoints(a); err == nil && len(raw) > 0 && step > 0 && step < 1<<20 {
				t0 := uint32(raw[0].Time)
				for d1 := -3; d1 <= 3; d1++ {
					for d2 := 0; d2 <= 4; d2++ {
						from := t0 + uint32(int32(d1))*step - 1
						until := from + uint32(d2)*step + 1
						for _, nw := range []wt.Timestamp{now, wt.Timestamp(until + step), wt.Timestamp(t0 + uint32(ai.NumberOfPoints())*step/2)} {
							ts, err := db.FetchFromArchive(a, wt.Timestamp(from), wt.Timestamp(until), nw)
							if err == nil && ts != nil {
								_ = ts.Points()
							}
						}
					}
				}
			}
		}
		for a := 0; a < k; a++ {
			db.GetAllRawUnsortedPoints(a)
			db.UpdatePointForArchive(a, now-1, 1, now)
			db.UpdatePointsForArchive([]wt.Point{{Time: now - 3, Value: 2}, {Time: now, Value: 3}}, a, now)
		}
		db.UpdatePointForArchive(wt.ArchiveIDBest, now, 5, now)
		db.UpdatePointsForArchive([]wt.Point{{Time: now - 1000, Value: 2}, {Time: now, Value: 3}}, wt.ArchiveIDBest, now)
		db.Sync()
	}()
	runtime.ReadMemStats(&ms1)
	res.Alloc = ms1.TotalAlloc - ms0.TotalAlloc
	return res
}

// hostile-child <cases-file> <first>: runs cases sequentially, one JSON line per case on stdout
func runHostileChild(args []string) int {
	var lim syscall.Rlimit
	lim.Cur, lim.Max = 3<<30, 3<<30
	syscall.Setrlimit(syscall.RLIMIT_AS, &lim)
	debug.SetGCPercent(-1)
	data, err := ioutil.ReadFile(args[0])
	if err != nil {
		return 2
	}
	var first int
	fmt.Sscan(args[1], &first)
	var cases []map[string]interface{}
	if err := json.Unmarshal(data, &cases); err != nil {
		return 2
	}
	dir := scratchDir()
	defer os.RemoveAll(dir)
	w := bufio.NewWriter(os.Stdout)
	for i := first; i < len(cases); i++ {
		c := cases[i]
		fmt.Fprintf(w, "START %d\n", i)
		w.Flush()
		hexs := c["hex"].(string)
		raw := make([]byte, len(hexs)/2)
		fmt.Sscanf(hexs, "%x", &raw)
		var r decodeResult
		if c["decoder"].(string) == "file" {
			r = fileHostile(filepath.Join(dir, "h.wsp"), raw)
		} else {
			r = decodeHostile(c["decoder"].(string), raw)
		}
		b, _ := json.Marshal(r)
		fmt.Fprintf(w, "DONE %d %s\n", i, b)
		w.Flush()
		if i%64 == 0 {
			debug.FreeOSMemory()
			runtime.GC()
		}
	}
	return 0
}

func validFileBytes(rnd *rand.Rand) []byte {
	lay := cliLayouts[rnd.Intn(len(cliLayouts))]
	cfg := MCfg{Layout: lay, Method: []string{"average", "sum", "last", "max", "min", "first"}[rnd.Intn(6)], Xff: [2]int64{1, 2}}
	ring := make([][]RSlot, len(lay))
	now := uint32(1600000000)
	for a, ar := range lay {
		ring[a] = make([]RSlot, ar.N)
		base := now - now%uint32(ar.Step) - uint32(ar.Step)*uint32(ar.N-1)
		for i := range ring[a] {
			if rnd.Intn(3) > 0 {
				ring[a][i] = RSlot{T: base + uint32(i)*uint32(ar.Step), V: float64(rnd.Intn(100))}
			}
		}
		if ring[a][0].T == 0 {
			ring[a][0] = RSlot{T: base, V: 1}
		}
	}
	return encodeFile(cfg, ring)
}

// hostile <export-file> <seed> <nmut> <result-json>
func runHostile(args []string) int {
	f, err := os.Open(args[0])
	if err != nil {
		fmt.Fprintln(os.Stderr, err)
		return 2
	}
	var seed int64
	var nmut int
	fmt.Sscan(args[1], &seed)
	fmt.Sscan(args[2], &nmut)
	sc := bufio.NewScanner(f)
	sc.Buffer(make([]byte, 1<<20), 1<<26)
	factor, konst := int64(8), int64(65536)
	type jcase struct {
		desc    map[string]interface{}
		allowed []string
		inlen   int
	}
	var cases []jcase
	var payload []map[string]interface{}
	add := func(desc map[string]interface{}, decoder string, data []byte, allowed []string) {
		desc["len"] = len(data)
		cases = append(cases, jcase{desc, allowed, len(data)})
		payload = append(payload, map[string]interface{}{"decoder": decoder, "hex": fmt.Sprintf("%x", data)})
	}
	for sc.Scan() {
		b := sc.Bytes()
		if len(b) < 5 || b[0] != '"' {
			continue
		}
		var s string
		if json.Unmarshal(b, &s) != nil {
			continue
		}
		var hc hostileCase
		if json.Unmarshal([]byte(s), &hc) != nil {
			continue
		}
		if hc.Kind == "alloc" {
			factor, konst = hc.Factor, hc.Const
		}
		if hc.Kind != "hostile" {
			continue
		}
		data := hostileBytes(&hc)
		add(map[string]interface{}{"decoder": hc.Decoder, "count": hc.Count, "step": hc.Step, "range": hc.Range, "avail": hc.Avail}, hc.Decoder, data, hc.Allowed)
		if hc.Decoder == "header" && hc.Step == "normal" && hc.Range == "lt" {
			// the same header bytes as a file given to Open (plus a little body)
			body := append(append([]byte{}, data...), make([]byte, 64)...)
			add(map[string]interface{}{"decoder": "file", "count": hc.Count, "avail": hc.Avail, "what": "hostile header as a file"}, "file", body, []string{"err", "ok"})
		}
	}
	f.Close()
	if len(cases) == 0 {
		fmt.Fprintln(os.Stderr, "no hostile cases exported")
		return 2
	}
	grid := len(cases)
	// every header word of a valid file set to every extreme value (systematic, not sampled)
	rnd := rand.New(rand.NewSource(seed))
	for g := 0; g < 2*len(cliLayouts); g++ {
		valid := validFileBytes(rnd)
		hw := 4 + 3*int(binary.BigEndian.Uint32(valid[12:]))
		for w := 0; w < hw; w++ {
			for _, x := range []uint32{0, 1, 0x7fffffff, 0x80000000, 0xffffffff, 0x15555556, 0x0aaaaaab, 7, 8, 9} {
				data := append([]byte{}, valid...)
				binary.BigEndian.PutUint32(data[4*w:], x)
				add(map[string]interface{}{"decoder": "file", "what": fmt.Sprintf("header word %d = %#x", w, x), "grid": g}, "file", data, []string{"err", "ok"})
			}
		}
	}
	// seeded mutations of valid encodings
	for i := 0; i < nmut; i++ {
		valid := validFileBytes(rnd)
		data := append([]byte{}, valid...)
		what := ""
		switch rnd.Intn(8) {
		case 6: // the interval held in an archive's first slot is not a multiple of the step / is far away
			k := int(binary.BigEndian.Uint32(data[12:]))
			a := rnd.Intn(k)
			off := int(binary.BigEndian.Uint32(data[16+12*a:]))
			step := binary.BigEndian.Uint32(data[20+12*a:])
			t := binary.BigEndian.Uint32(data[off:])
			switch rnd.Intn(3) {
			case 0:
				t += step/2 + 1
			case 1:
				t = uint32(rnd.Uint32())
			default:
				t += 1
			}
			binary.BigEndian.PutUint32(data[off:], t)
			what = "first slot interval misaligned"
		case 7: // arbitrary slot records
			h := 16 + 12*int(binary.BigEndian.Uint32(data[12:]))
			for j := 0; j < 1+rnd.Intn(6); j++ {
				p := h + 12*rnd.Intn((len(data)-h)/12)
				binary.BigEndian.PutUint32(data[p:], rnd.Uint32())
				if rnd.Intn(2) == 0 {
					binary.BigEndian.PutUint64(data[p+4:], rnd.Uint64())
				}
			}
			what = "slot records garbage"
		case 0: // truncation
			data = data[:rnd.Intn(len(data))]
			what = "truncated"
		case 1: // bit flips in the header
			for j := 0; j < 1+rnd.Intn(3); j++ {
				p := rnd.Intn(16 + 12*3)
				if p < len(data) {
					data[p] ^= 1 << uint(rnd.Intn(8))
				}
			}
			what = "header bit flips"
		case 2: // extreme value in a header field
			// 7, 8, 9: the neighbours of the largest valid aggregation method (reserved / unknown numbers)
			ext := []uint32{0, 1, 0x7fffffff, 0x80000000, 0xffffffff, 0x15555556, 0x0aaaaaab, 7, 8, 9}
			hw := 4 + 3*int(binary.BigEndian.Uint32(data[12:]))
			p := 4 * rnd.Intn(hw)
			if p+4 <= len(data) {
				binary.BigEndian.PutUint32(data[p:], ext[rnd.Intn(len(ext))])
			}
			what = "extreme header field"
		case 3: // header kept, body cut
			h := 16 + 12*int(binary.BigEndian.Uint32(data[12:]))
			if h < len(data) {
				data = data[:h+rnd.Intn(len(data)-h)]
			}
			what = "body cut"
		case 4: // random bytes
			data = make([]byte, rnd.Intn(200))
			rnd.Read(data)
			what = "random bytes"
		default: // byte noise anywhere
			for j := 0; j < 1+rnd.Intn(8); j++ {
				data[rnd.Intn(len(data))] = byte(rnd.Intn(256))
			}
			what = "byte noise"
		}
		add(map[string]interface{}{"decoder": "file", "what": what, "mutation": i}, "file", data, []string{"err", "ok"})
		if i%3 == 0 {
			dec := []string{"header", "series", "points"}[rnd.Intn(3)]
			n := rnd.Intn(64)
			if n > len(data) {
				n = len(data)
			}
			add(map[string]interface{}{"decoder": dec, "what": what + " fed to the " + dec + " decoder", "mutation": i}, dec, data[:n], []string{"err", "want", "ok"})
		}
	}
	dir := scratchDir()
	defer os.RemoveAll(dir)
	pf := filepath.Join(dir, "cases.json")
	self, _ := os.Executable()
	var viols []violation
	results := make([]*decodeResult, len(cases))
	crashes := 0
	// the cases go to the child in chunks: it runs under a 3 GiB address-space limit and reads its whole input
	const chunk = 2000
	for base := 0; base < len(cases); base += chunk {
		end := base + chunk
		if end > len(cases) {
			end = len(cases)
		}
		pb, _ := json.Marshal(payload[base:end])
		ioutil.WriteFile(pf, pb, 0644)
		first := 0
		for first < end-base {
			c := exec.Command(self, "hostile-child", pf, fmt.Sprint(first))
			var out, errb bytes.Buffer
			c.Stdout, c.Stderr = &out, &errb
			c.Run()
			last := -1
			progressed := false
			for _, line := range strings.Split(out.String(), "\n") {
				var i int
				if strings.HasPrefix(line, "START ") {
					fmt.Sscanf(line, "START %d", &i)
					last = i
					progressed = true
				}
				if strings.HasPrefix(line, "DONE ") {
					var js string
					parts := strings.SplitN(line, " ", 3)
					fmt.Sscan(parts[1], &i)
					js = parts[2]
					var r decodeResult
					json.Unmarshal([]byte(js), &r)
					results[base+i] = &r
					if i == last {
						last = -1
					}
				}
			}
			if last >= 0 {
				// the child died inside case `last`
				crashes++
				msg := errb.String()
				if len(msg) > 600 {
					msg = msg[:600]
				}
				results[base+last] = &decodeResult{Class: "crash", Msg: msg}
				first = last + 1
				continue
			}
			if !progressed {
				fmt.Fprintln(os.Stderr, "hostile-child did not start:", errb.String())
				return 2
			}
			break
		}
	}
	evals := 0
	var samples []interface{}
	for i, c := range cases {
		r := results[i]
		if r == nil {
			fmt.Fprintln(os.Stderr, "case without result", i)
			return 2
		}
		evals++
		if i%97 == 3 && len(samples) < 4 {
			samples = append(samples, map[string]interface{}{"case": c.desc, "observed": r.Class})
		}
		bad := ""
		okc := false
		for _, a := range c.allowed {
			if a == r.Class {
				okc = true
			}
		}
		switch {
		case r.Class == "panic" || r.Class == "crash":
			bad = "decoding " + r.Class + "s: " + r.Msg
		case !okc:
			bad = fmt.Sprintf("outcome %s (%s), specification allows %v", r.Class, r.Msg, c.allowed)
		case r.Class == "want" && r.W <= c.inlen:
			bad = fmt.Sprintf("asks for %d bytes although %d were given", r.W, c.inlen)
		case int64(r.Alloc) > factor*int64(c.inlen)+konst:
			bad = fmt.Sprintf("allocated %d bytes for %d bytes of input (bound %d x len + %d)", r.Alloc, c.inlen, factor, konst)
		}
		if bad != "" && len(viols) < 40 {
			viols = append(viols, violation{Prop: "C15", What: "hostile bytes", Detail: bad, Line: c.desc, Sig: hostileSig(c.desc, r)})
		}
	}
	res := map[string]interface{}{"evaluations": evals, "grid_cases": grid, "mutations": nmut, "child_crashes": crashes,
		"violations": append([]violation{}, viols...), "samples": samples}
	b, _ := json.MarshalIndent(res, "", " ")
	ioutil.WriteFile(args[3], b, 0644)
	return 0
}

func hostileSig(desc map[string]interface{}, r *decodeResult) string {
	return fmt.Sprintf("%v:%v:%s", desc["decoder"], desc["count"], r.Class)
}
