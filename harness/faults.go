package main

import (
	"bufio"
	"encoding/json"
	"fmt"
	"io/ioutil"
	"math/rand"
	"os"
	"path/filepath"
	"strings"

	wt "github.com/hnakamur/whispertool"
	"github.com/hnakamur/whispertool/cmd"
)

// C16 fault grid: subcommand x archive selection x window x environment fault, executed through
// Execute(); allowed outcome classes come from the specification's FaultOutcome table (exported by TLC).

type faultTable struct {
	Kind  string                         `json:"kind"`
	Table map[string]map[string][]string `json:"table"`
}

func loadFaultTable(path string) (*faultTable, error) {
	f, err := os.Open(path)
	if err != nil {
		return nil, err
	}
	defer f.Close()
	sc := bufio.NewScanner(f)
	sc.Buffer(make([]byte, 1<<20), 1<<26)
	for sc.Scan() {
		b := sc.Bytes()
		if len(b) < 5 || b[0] != '"' {
			continue
		}
		var s string
		if json.Unmarshal(b, &s) != nil {
			continue
		}
		var t faultTable
		if json.Unmarshal([]byte(s), &t) == nil && t.Kind == "faults" {
			return &t, nil
		}
	}
	return nil, fmt.Errorf("no fault table in %s", path)
}

// cli-faults <table-export> <seed> <rounds> <result-json>
func runCLIFaults(args []string) int {
	tab, err := loadFaultTable(args[0])
	if err != nil {
		fmt.Fprintln(os.Stderr, err)
		return 2
	}
	var seed int64
	var rounds int
	fmt.Sscan(args[1], &seed)
	fmt.Sscan(args[2], &rounds)
	root := scratchDir()
	defer os.RemoveAll(root)
	var viols []violation
	var samples []interface{}
	execs := 0
	cmds := []string{"copy", "diff", "sum", "sum-copy", "sum-diff", "view", "view-raw", "generate"}
	faults := []string{"none", "textout-unopenable", "textout-full", "source-missing", "source-corrupt", "dest-dir-readonly", "dest-corrupt"}
	for round := 0; round < rounds; round++ {
		rnd := rand.New(rand.NewSource(seed*104729 + int64(round)))
		lay := cliLayouts[rnd.Intn(len(cliLayouts))]
		cfg := MCfg{Layout: lay, Method: "sum", Xff: [2]int64{0, 1}}
		k := len(lay)
		maxRet := lay[k-1].Step * lay[k-1].N
		mp := Mapping{B: drvBases[rnd.Intn(len(drvBases))], Scale: 1}
		mp.B -= mp.B % lcmAll(lay)
		now := maxRet + 2*lay[len(lay)-1].Step + 500 + rnd.Int63n(1000)
		cmd.VerifNow = func() wt.Timestamp { return wt.Timestamp(mp.B + now) }
		for _, cn := range cmds {
			for _, ft := range faults {
				caseDir := filepath.Join(root, fmt.Sprintf("r%d", round))
				os.RemoveAll(caseDir)
				e := &cliEnv{root: caseDir, srcBase: filepath.Join(caseDir, "src"), destBase: filepath.Join(caseDir, "dst"), mp: mp, now: now}
				os.MkdirAll(caseDir, 0755)
				s1 := filepath.Join(e.srcBase, "item1", "s1.wsp")
				s2 := filepath.Join(e.srcBase, "item1", "s2.wsp")
				dst := filepath.Join(e.destBase, "item1", "d.wsp")
				for _, p := range []string{s1, s2, dst} {
					createFile(p, cfg)
					populate(p, cfg, mp, now, rnd, 1, 3+rnd.Intn(5))
				}
				gen := filepath.Join(caseDir, "gen", "g.wsp")
				os.MkdirAll(filepath.Dir(gen), 0755)
				// argument variety: archive selection and window
				sel := rnd.Intn(k + 1)
				var f, u int64
				switch rnd.Intn(5) {
				case 0:
					f, u = 0, 0
				case 1: // in the past, beyond the finest archive's retention
					f = now - lay[0].Step*lay[0].N - 5
					u = f + 2
				case 2: // future
					f, u = now+5, now+10
				case 3: // degenerate
					f = now - rnd.Int63n(maxRet)
					u = f
				default:
					f = now - rnd.Int63n(maxRet)
					u = f + rnd.Int63n(maxRet)
				}
				from, until := e.realT(f), e.realT(u)
				arch := cmdArchive(sel)
				textOut := filepath.Join(caseDir, "out.txt")
				garbage := make([]byte, 30+rnd.Intn(60))
				rnd.Read(garbage)
				switch ft {
				case "textout-unopenable":
					textOut = filepath.Join(caseDir, "no-such-dir", "out.txt")
				case "textout-full":
					if _, err := os.Stat("/dev/full"); err != nil {
						continue
					}
					textOut = "/dev/full"
				case "source-missing":
					os.Remove(s1)
					os.Remove(s2)
				case "source-corrupt":
					ioutil.WriteFile(s1, garbage, 0644)
				case "dest-dir-readonly":
					// the destination directory cannot be created/written: its path is a regular file
					os.RemoveAll(filepath.Join(e.destBase, "item1"))
					ioutil.WriteFile(filepath.Join(e.destBase, "item1"), []byte("x"), 0644)
					os.RemoveAll(filepath.Dir(gen))
					ioutil.WriteFile(filepath.Dir(gen), []byte("x"), 0644)
				case "dest-corrupt":
					ioutil.WriteFile(dst, garbage, 0644)
					ioutil.WriteFile(gen, garbage, 0644)
				}
				var c cmd.Command
				switch cn {
				case "copy":
					c = &cmd.CopyCommand{SrcBase: e.srcBase, SrcRelPath: "item1/s1.wsp", DestBase: e.destBase, DestRelPath: "item1/d.wsp",
						AggregationMethod: wt.Sum, XFilesFactor: 0, ArchiveInfoList: archiveInfoList(cfg), From: from, Until: until, ArchiveID: arch, CopyNaN: rnd.Intn(2) == 0, TextOut: textOut}
				case "diff":
					c = &cmd.DiffCommand{SrcBase: e.srcBase, SrcRelPath: "item1/s1.wsp", DestBase: e.destBase, DestRelPath: "item1/d.wsp", From: from, Until: until, ArchiveID: arch, TextOut: textOut}
				case "sum":
					c = &cmd.SumCommand{SrcBase: e.srcBase, ItemPattern: "item1", SrcPattern: "s*.wsp", From: from, Until: until, ArchiveID: arch, TextOut: textOut}
				case "sum-copy":
					c = &cmd.SumCopyCommand{SrcBase: e.srcBase, DestBase: e.destBase, ItemPattern: "item1", SrcPattern: "s*.wsp", DestRelPath: "d.wsp",
						AggregationMethod: wt.Sum, XFilesFactor: 0, ArchiveInfoList: archiveInfoList(cfg), From: from, Until: until, ArchiveID: arch, TextOut: textOut}
				case "sum-diff":
					c = &cmd.SumDiffCommand{SrcBase: e.srcBase, ItemPattern: "item1", SrcPattern: "s*.wsp", DestBase: e.destBase, DestRelPath: "d.wsp", From: from, Until: until, ArchiveID: arch, TextOut: textOut}
				case "view":
					c = &cmd.ViewCommand{SrcBase: e.srcBase, SrcRelPath: "item1/s1.wsp", From: from, Until: until, ArchiveID: arch, ShowHeader: true, TextOut: textOut}
				case "view-raw":
					c = &cmd.ViewRawCommand{SrcBase: e.srcBase, SrcRelPath: "item1/s1.wsp", From: from, Until: until, ArchiveID: arch, ShowHeader: true, TextOut: textOut}
				case "generate":
					c = &cmd.GenerateCommand{Dest: gen, Perm: 0644, AggregationMethod: wt.Sum, XFilesFactor: 0, ArchiveInfoList: archiveInfoList(cfg), RandMax: 5, Fill: true, TextOut: textOut}
				}
				desc := map[string]interface{}{"cmd": cn, "fault": ft, "layout": lay, "sel": sel, "f": f, "u": u, "now": now, "round": round}
				fmt.Fprintf(os.Stderr, "CASE %d %s %s\n", round, cn, ft)
				var class, msg string
				func() {
					defer func() {
						if r := recover(); r != nil {
							class, msg = "panic", fmt.Sprint(r)
						}
					}()
					class, msg = classify(c.Execute())
				}()
				execs++
				if len(samples) < 3 && ft != "none" {
					desc["observed"] = class
					samples = append(samples, desc)
				}
				allowed := tab.Table[cn][ft]
				if f > u && u != 0 {
					allowed = []string{"err"}
				}
				okc := false
				for _, a := range allowed {
					if a == class {
						okc = true
					}
				}
				if !okc {
					viols = append(viols, violation{Prop: "C16", What: fmt.Sprintf("%s under fault %s", cn, ft),
						Detail: fmt.Sprintf("outcome %s (%s), specification allows %v", class, msg, allowed), Line: desc, B: mp.B, Scale: 1,
						Sig: "fault:" + cn + ":" + ft + ":" + class})
					continue
				}
				// success must come with the effect
				if class == "ok" || class == "diff" {
					if _, err := os.Stat(textOut); err != nil {
						viols = append(viols, violation{Prop: "C16", What: cn + " reports success but wrote no text output", Detail: err.Error(), Line: desc, B: mp.B, Scale: 1})
					}
					var must string
					switch cn {
					case "copy", "sum-copy":
						must = dst
					case "generate":
						must = gen
					}
					if must != "" {
						db, err := wt.Open(must, wt.WithoutFlock())
						if err != nil {
							viols = append(viols, violation{Prop: "C16", What: cn + " reports success but the destination is not a readable whisper file", Detail: err.Error(), Line: desc, B: mp.B, Scale: 1})
						} else {
							db.Close()
						}
					}
				}
			}
		}
	}
	cmd.VerifNow = nil
	if len(viols) > 40 {
		viols = viols[:40]
	}
	res := map[string]interface{}{"executions": execs, "violations": append([]violation{}, viols...), "samples": samples}
	b, _ := json.MarshalIndent(res, "", " ")
	ioutil.WriteFile(args[3], b, 0644)
	return 0
}

var _ = strings.Contains
