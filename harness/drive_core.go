package main

import (
	"bytes"
	"bufio"
	"encoding/json"
	"fmt"
	"io/ioutil"
	"math"
	"math/rand"
	"os"
	"path/filepath"

	wt "github.com/hnakamur/whispertool"
)

// ---------------------------------------------------------------------------
// code -> spec: seeded drivers on the real library; one ndjson line per call.
// The lines are validated by TLC against spec/Trace_Core.tla.
// ---------------------------------------------------------------------------

const unrepresentable = 7654321 // a real value that is not (integer x scale): never equals a model value

type drvLayout struct {
	arch []MArch
}

var drvLayouts = []drvLayout{
	{[]MArch{{1, 800}}},                                  // 3 pages, slots straddle 8192 and 12288
	{[]MArch{{1, 60}, {60, 60}, {3600, 24}}},             // 1s:1m,1m:1h,1h:1d
	{[]MArch{{1, 8}, {4, 8}, {16, 8}}},                   // layout of the repository's tests
	{[]MArch{{10, 3}, {30, 3}}},                          // coarser ring barely longer
	{[]MArch{{2, 700}, {10, 700}}},                       // both archives multi-page
	{[]MArch{{1, 4}, {2, 4}, {4, 4}, {8, 4}}},            // 4 levels
	{[]MArch{{1, 2}, {2, 2}}},                            // rings of 2, ratio = finer count
	{[]MArch{{5, 400}, {20, 350}, {100, 100}}},           // page-straddling in every archive
	{[]MArch{{1, 1}}},                                    // ring of one slot
	{[]MArch{{3, 5}, {15, 2}}},                           // ratio = finer count (5)
	{[]MArch{{1, 6}, {4, 2}, {8, 4}}},                    // coarser retention < finer retention + coarser step
}

var drvMethods = []string{"average", "sum", "last", "max", "min", "first"}
var drvXffs = [][2]int64{{0, 1}, {1, 2}, {1, 1}, {1, 3}, {1, 5}, {3, 5}, {1, 10}, {3, 10}, {2, 3}, {1, 4}}
var drvBases = []int64{0, 1600000000, 2147000000, 2300000000, 4294000000} // incl. real times beyond 2^31 (the model's times stay small)
var drvScales = []float64{1, 0.25, 1024}

func lcmUpTo(n int64) int64 {
	r := int64(1)
	for i := int64(2); i <= n; i++ {
		r = r / gcd(r, i) * i
	}
	return r
}

// value unit that keeps every average at every level an exact integer (0 = not possible in 31 bits)
func avgUnit(l []MArch) int64 {
	u := int64(1)
	for i := 1; i < len(l); i++ {
		r := l[i].Step / l[i-1].Step
		if r > 12 {
			return 0
		}
		u *= lcmUpTo(r)
		if u > 100000 {
			return 0
		}
	}
	return u
}

// set whenever a real value had to be replaced by the sentinel
var unrepSeen bool

type sparse [][][3]interface{}

func (m Mapping) modelV(v float64) []int64 {
	if math.IsNaN(v) {
		return []int64{}
	}
	if m.Off != 0 && v == 0 {
		return []int64{0} // the zero bytes of a never-written slot (no model value maps to 0.0 under an offset mapping)
	}
	x := (v - m.Off) / m.Scale
	if x != math.Trunc(x) || math.Abs(x) > 2e9 {
		unrepSeen = true
		return []int64{unrepresentable}
	}
	return []int64{int64(x)}
}

func (m Mapping) modelT(t uint32) int64 {
	if t == 0 {
		return 0
	}
	return int64(t) - m.B
}

func (m Mapping) sparseOf(ring [][]RSlot) [][][]interface{} {
	out := make([][][]interface{}, len(ring))
	for a, ra := range ring {
		out[a] = [][]interface{}{}
		for i, s := range ra {
			if s.T != 0 || s.V != 0 || math.Signbit(s.V) {
				out[a] = append(out[a], []interface{}{i + 1, m.modelT(s.T), m.modelV(s.V)})
			}
		}
	}
	return out
}

type coreDriver struct {
	prop    string
	pending map[string]interface{}
	seed    int64
	rnd   *rand.Rand
	w     *bufio.Writer
	dir   string
	lines int
}

func (d *coreDriver) emit(ev map[string]interface{}) {
	b, err := json.Marshal(ev)
	if err != nil {
		panic(err)
	}
	d.w.Write(b)
	d.w.WriteByte('\n')
	d.lines++
}

// the header bytes as they were right after creation ("the header bytes never change after creation")
var diskHeader0 = map[string][]byte{}

func diskSparse(path string, m Mapping) ([][][]interface{}, int, error) {
	buf, err := ioutil.ReadFile(path)
	if err != nil {
		return nil, 0, err
	}
	h, rings, err := decodeFile(buf)
	if err != nil {
		return nil, len(buf), err
	}
	hl := 16 + 12*len(h.Archs)
	if h0, ok := diskHeader0[path]; !ok {
		diskHeader0[path] = append([]byte(nil), buf[:hl]...)
	} else if !bytes.Equal(h0, buf[:hl]) {
		return nil, len(buf), fmt.Errorf("the header bytes changed after creation: %x, were %x", buf[:hl], h0)
	}
	return m.sparseOf(rings), len(buf), nil
}

func (d *coreDriver) oneTrace(id int) error {
	rnd := rand.New(rand.NewSource(d.seed*1000003 + int64(id)))
	d.rnd = rnd
	lay := drvLayouts[rnd.Intn(len(drvLayouts))].arch
	// bulk writes: more than a thousand points into one archive in one call (the file has 8 pages)
	big := (d.prop == "C05" || d.prop == "ALL") && id%8 == 5 && id < 96 // TLC needs about a minute per such trace
	if big {
		lay = []MArch{{1, 2600}, {60, 50}}
	}
	method := drvMethods[rnd.Intn(len(drvMethods))]
	unit := int64(1)
	if method == "average" {
		unit = avgUnit(lay)
		if unit == 0 {
			method = "sum"
			unit = 1
		}
	}
	cfg := MCfg{Layout: lay, Method: method, Xff: drvXffs[rnd.Intn(len(drvXffs))]}
	k := len(lay)
	maxRet := lay[k-1].Step * lay[k-1].N
	m := Mapping{B: drvBases[rnd.Intn(len(drvBases))], Scale: drvScales[rnd.Intn(len(drvScales))]}
	l := lcmAll(lay)
	m.B -= m.B % l
	now := maxRet + 2*lay[len(lay)-1].Step + 1000 + rnd.Int63n(5000)
	path := filepath.Join(d.dir, fmt.Sprintf("t%d.wsp", id))
	defer os.Remove(path)
	delete(diskHeader0, path)

	ail := make([]wt.ArchiveInfo, k)
	for i, a := range lay {
		ail[i] = wt.NewArchiveInfo(wt.Duration(a.Step), uint32(a.N))
	}
	if (d.prop == "C05" || d.prop == "ALL") && rnd.Intn(3) == 0 {
		// a handle from Create that is dropped before its first Sync (after some writes)
		p0 := filepath.Join(d.dir, fmt.Sprintf("n%d.wsp", id))
		ndb, err := wt.Create(p0, append([]wt.ArchiveInfo{}, ail...), methodOf(method), xffFloat(cfg.Xff))
		if err != nil {
			return fmt.Errorf("create: %v", err)
		}
		for i := 0; i < 1+rnd.Intn(20); i++ {
			a := rnd.Intn(k)
			ndb.UpdatePointForArchive(a, wt.Timestamp(m.B+now-rnd.Int63n(lay[a].Step*lay[a].N)), wt.Value(float64(rnd.Intn(50))), wt.Timestamp(m.B+now))
		}
		if rnd.Intn(2) == 0 {
			ndb.FetchFromArchive(0, wt.Timestamp(m.B+now-5), wt.Timestamp(m.B+now), wt.Timestamp(m.B+now))
		}
		ndb.Close()
		buf, _ := ioutil.ReadFile(p0)
		zero := true
		for _, b := range buf {
			if b != 0 {
				zero = false
				break
			}
		}
		exp := int64(16 + 12*k)
		for _, a := range lay {
			exp += 12 * a.N
		}
		os.Remove(p0)
		d.pending = map[string]interface{}{"ev": "newfile-abandoned", "zero": zero, "len": len(buf), "expected_len": exp}
	}
	db, err := wt.Create(path, ail, methodOf(method), xffFloat(cfg.Xff))
	if err != nil {
		return fmt.Errorf("create: %v", err)
	}
	if err := db.Sync(); err != nil {
		return err
	}
	defer func() { db.Close() }()
	withDisk := d.prop == "C05" || d.prop == "ALL"
	logDisk := func(ev map[string]interface{}) error {
		if !withDisk {
			return nil
		}
		ds, n, err := diskSparse(path, m)
		if err != nil {
			// the bytes are not a classic Whisper file any more (e.g. the length changed)
			ev["disk_error"] = err.Error()
			none := make([][][]interface{}, k)
			for i := range none {
				none[i] = [][]interface{}{}
			}
			ev["disk"] = none
		} else {
			ev["disk"] = ds
		}
		ev["len"] = n
		return nil
	}
	empty := make([][][]interface{}, k)
	for i := range empty {
		empty[i] = [][]interface{}{}
	}
	ev := map[string]interface{}{"ev": "create", "cfg": cfg, "post": empty, "B": m.B, "scale": m.Scale, "trace": id}
	logDisk(ev)
	d.emit(ev)
	if d.pending != nil {
		d.emit(d.pending)
		d.pending = nil
	}

	real := func(t int64) wt.Timestamp { return wt.Timestamp(m.B + t) }
	val := func() []int64 {
		if (d.prop == "C01" || d.prop == "C02" || d.prop == "C03" || d.prop == "C05" || d.prop == "ALL") && rnd.Intn(15) == 0 {
			return []int64{} // a NaN value: stored as (interval, NaN), which is not an empty slot
		}
		x := (rnd.Int63n(41) - 20) * unit
		return []int64{x}
	}
	named := func() int { return 1 + rnd.Intn(k) }
	selFor := func() int {
		switch d.prop {
		case "C01", "C02":
			return named()
		case "C03":
			if rnd.Intn(3) > 0 {
				return 0
			}
			return named()
		}
		if rnd.Intn(2) == 0 {
			return 0
		}
		return named()
	}
	// a point time for archive sel (0 = best): mostly inside the retention, sometimes at its edges
	ptTime := func(sel int) int64 {
		ret := maxRet
		if sel != 0 {
			ret = lay[sel-1].Step * lay[sel-1].N
		} else if rnd.Intn(2) == 0 {
			a := lay[rnd.Intn(k)]
			ret = a.Step * a.N
		}
		edge := d.prop == "C03" || d.prop == "C05" || d.prop == "ALL"
		switch r := rnd.Intn(10); {
		case r == 0 && edge:
			return now - ret + int64(rnd.Intn(3)) - 1 // retention-1, retention, retention+1
		case r == 1:
			return now - int64(rnd.Intn(2))
		case r == 2 && rnd.Intn(3) == 0:
			// dated ahead of the clock: the batch API accepts it; it may share a ring slot with a live interval
			return now + 1 + rnd.Int63n(ret)
		default:
			return now - rnd.Int63n(ret)
		}
	}
	post := func() [][][]interface{} {
		ring, err := project(db)
		if err != nil {
			return nil
		}
		return m.sparseOf(ring)
	}
	steps := 12 + rnd.Intn(40)
	if big {
		steps = 5 + rnd.Intn(4)
	}
	for s := 0; s < steps; s++ {
		r := rnd.Intn(100)
		switch {
		case r < 8: // clock advance, sometimes beyond a retention
			switch rnd.Intn(4) {
			case 0:
				a := lay[rnd.Intn(k)]
				now += a.Step*a.N + int64(rnd.Intn(3))
			case 1:
				now += lay[rnd.Intn(k)].Step
			default:
				now += 1 + rnd.Int63n(7)
			}
		case r < 30: // single update
			sel := selFor()
			p := MPoint{T: ptTime(sel), V: val()}
			if d.prop == "C01" && sel != 0 && sel < k && rnd.Intn(5) == 0 {
				// one or more laps back in the named archive (older than its retention, inside the file's)
				ret := lay[sel-1].Step * lay[sel-1].N
				p.T = now - ret - rnd.Int63n(maxRet-ret)
			}
			if (d.prop == "C05" || d.prop == "C03" || d.prop == "ALL") && rnd.Intn(6) == 0 {
				// an update the library must reject (dated ahead of the clock, or older than the maximum retention)
				sel = 0
				if rnd.Intn(2) == 0 {
					p.T = now + 1 + rnd.Int63n(100)
				} else {
					p.T = now - maxRet - rnd.Int63n(50)
				}
			}
			if sel != 0 && !(p.T > now-lay[sel-1].Step*lay[sel-1].N) && d.prop != "C01" {
				continue // a named archive too short for the point's age: routing is left open (C03); for C01 it is a write like any other
			}
			var okv bool
			var pan string
			func() {
				defer func() {
					if rc := recover(); rc != nil {
						pan = fmt.Sprint(rc)
					}
				}()
				err := db.UpdatePointForArchive(goArchive(sel), real(p.T), wt.Value(m.V(p.V)), real(now))
				okv = err == nil
			}()
			ev := map[string]interface{}{"ev": "update", "sel": sel, "p": p, "now": now, "ok": okv, "post": post()}
			if pan != "" {
				ev["panic"] = pan
			}
			logDisk(ev)
			d.emit(ev)
		case r < 55: // batch
			sel := selFor()
			n := 1 + rnd.Intn(8)
			if rnd.Intn(6) == 0 {
				n = 20 + rnd.Intn(60)
			}
			pts := make([]MPoint, 0, n)
			sweep := false
			if (d.prop == "C01" || d.prop == "C03" || d.prop == "ALL") && !big && rnd.Intn(10) == 0 {
				// a sweep over the whole ring of a named archive: one point in every interval the retention touches - with an
				// unaligned clock that is N+1 intervals, the oldest and the newest sharing a slot - supplied in random order
				for try := 0; try < 4 && !sweep; try++ {
					a := 1 + rnd.Intn(k)
					if lay[a-1].N >= 13 && lay[a-1].N <= 100 && lay[a-1].Step >= 3 {
						sel, sweep = a, true
					}
				}
			}
			if sweep {
				st, np := lay[sel-1].Step, lay[sel-1].N
				for i := int64(0); i <= np; i++ {
					t := now - i*st
					if i == np {
						t = now - np*st + 1
					}
					if t > now-np*st {
						pts = append(pts, MPoint{T: t, V: val()})
					}
				}
				rnd.Shuffle(len(pts), func(i, j int) { pts[i], pts[j] = pts[j], pts[i] })
			} else if big && rnd.Intn(3) > 0 {
				sel = rnd.Intn(2) // best or the fine archive
				n = 1024 + rnd.Intn(1500)
				for i := 0; i < n; i++ {
					pts = append(pts, MPoint{T: now - int64(n) + 1 + int64(i), V: val()})
				}
			} else {
				for i := 0; i < n; i++ {
					pts = append(pts, MPoint{T: ptTime(sel), V: val()})
				}
			}
			if (d.prop == "C03" || d.prop == "ALL") && len(pts) > 0 && len(pts) < 100 && rnd.Intn(3) == 0 {
				// the same timestamp supplied again (aligned or not, with a number or with NaN): the one supplied last counts
				for j := 0; j < 1+rnd.Intn(3); j++ {
					q := pts[rnd.Intn(len(pts))]
					if rnd.Intn(2) == 0 && sel != 0 {
						q.T -= q.T % lay[sel-1].Step // an aligned timestamp takes the merge path of the write
					}
					q.V = val()
					if rnd.Intn(3) == 0 {
						q.V = []int64{}
					}
					pts = append(pts, q)
				}
			}
			pts = agreedOrder(pts, lay, sel, now)
			rpts := toPoints(pts, m)
			if (d.prop == "C03" || d.prop == "C01" || d.prop == "ALL") && rnd.Intn(4) == 0 {
				// points far too old for every archive (up to the epoch itself, i.e. 2^31 s and more behind a clock beyond 2038):
				// they are dropped, and nothing else in the batch may suffer. In the trace their time is clamped to what TLC's
				// integers hold - every time older than the retention means the same to the specification.
				for j := 0; j < 1+rnd.Intn(2); j++ {
					ages := []int64{maxRet + 1 + rnd.Int63n(1000), 86400 * 400, 1<<31 - 1, 1 << 31, 1<<31 + 7, m.B + now - 1, m.B + now - 1 - rnd.Int63n(100000)}
					age := ages[rnd.Intn(len(ages))]
					if age > m.B+now-1 || age <= maxRet {
						continue
					}
					mt := now - age
					if mt < -2147000000 {
						mt = -2147000000
					}
					mp, rp := MPoint{T: mt, V: val()}, wt.Point{Time: wt.Timestamp(m.B + now - age), Value: 0}
					rp.Value = wt.Value(m.V(mp.V))
					at := rnd.Intn(len(pts) + 1)
					pts = append(pts[:at], append([]MPoint{mp}, pts[at:]...)...)
					rpts = append(rpts[:at], append([]wt.Point{rp}, rpts[at:]...)...)
				}
			}
			var pan string
			func() {
				defer func() {
					if rc := recover(); rc != nil {
						pan = fmt.Sprint(rc)
					}
				}()
				db.UpdatePointsForArchive(rpts, goArchive(sel), real(now))
			}()
			ev := map[string]interface{}{"ev": "many", "sel": sel, "pts": pts, "now": now, "post": post()}
			if pan != "" {
				ev["panic"] = pan
			}
			logDisk(ev)
			d.emit(ev)
		case r < 88: // fetch
			h := 1
			a := rnd.Intn(k+1) // 0 = best
			if rnd.Intn(25) == 0 {
				a = []int{-1, k + 1}[rnd.Intn(2)]
			}
			ret := maxRet
			if a >= 1 && a <= k {
				ret = lay[a-1].Step * lay[a-1].N
			}
			var f, u int64
			switch rnd.Intn(8) {
			case 0:
				f, u = 0, now
				if m.B > 2147000000 {
					f = now - ret - 2 // real from=0 maps to model time -B, which must fit TLC's integers
				}
			case 1:
				f = now - rnd.Int63n(ret+3)
				u = f
			case 2:
				f = now - ret - 2 + rnd.Int63n(5)
				u = f + rnd.Int63n(ret+5)
			case 3:
				f = now - 2 + rnd.Int63n(5)
				u = f + rnd.Int63n(5)
			case 4:
				f = now - rnd.Int63n(ret+3)
				u = f - 1 - rnd.Int63n(3)
			default:
				f = now - rnd.Int63n(ret+3)
				u = f + rnd.Int63n(ret+3)
			}
			if f < 0 {
				f = 0
			}
			if u < 0 {
				u = 0
			}
			rf, ru := uint32(m.B+f), uint32(m.B+u)
			if f == 0 {
				rf = 0
			}
			// a real until = 0 (no default substitution in the library: it is a window that ends at the epoch)
			uzero := m.B <= 2147000000 && rnd.Intn(12) == 0
			if uzero {
				ru = 0
				if rnd.Intn(2) == 0 {
					f, rf = 0, 0
				}
			}
			var o fetchObs
			if (d.prop == "C05" || d.prop == "ALL") && rnd.Intn(2) == 0 {
				// a second handle on the same file sees what was synced
				h = 2
				db2, err := wt.Open(path, wt.WithoutFlock())
				if err != nil {
					return fmt.Errorf("second handle: %v", err)
				}
				o = doFetch(db2, goArchive(a), rf, ru, uint32(m.B+now))
				db2.Close()
			} else {
				o = doFetch(db, goArchive(a), rf, ru, uint32(m.B+now))
			}
			mf := f
			if f == 0 {
				mf = -m.B // model window start for real from = 0
			}
			var res []interface{}
			if o.Kind == "ts" {
				vals := make([][]int64, len(o.Vals))
				for i, v := range o.Vals {
					vals[i] = m.modelV(v)
				}
				okTimes := true
				for i, t := range o.Times {
					if int64(t) != int64(o.From)+int64(i)*int64(o.Step) {
						okTimes = false
					}
				}
				step := int64(o.Step)
				if !okTimes {
					step = -step
				}
				res = []interface{}{"ts", int64(o.From) - m.B, int64(o.Until) - m.B, step, vals}
			} else {
				res = []interface{}{o.Kind}
			}
			mu := u
			if uzero {
				mu = -m.B
			}
			ev := map[string]interface{}{"ev": "fetch", "h": h, "a": a, "f": mf, "u": mu, "now": now, "res": res}
			if o.Msg != "" {
				ev["msg"] = o.Msg
			}
			logDisk(ev)
			d.emit(ev)
		case r < 94: // sync
			if err := db.Sync(); err != nil {
				return err
			}
			ev := map[string]interface{}{"ev": "sync"}
			logDisk(ev)
			d.emit(ev)
		default: // drop the handle without Sync and reopen
			db.Close()
			db, err = wt.Open(path)
			if err != nil {
				return fmt.Errorf("reopen: %v", err)
			}
			ev := map[string]interface{}{"ev": "abandon", "post": post()}
			logDisk(ev)
			d.emit(ev)
		}
	}
	return nil
}

// agreedOrder removes points whose supply order contradicts their timestamp order
// within one destination slot (left unspecified, see spec/UNSPECIFIED.md).
func agreedOrder(pts []MPoint, lay []MArch, sel int, now int64) []MPoint {
	route := func(t int64) int {
		if sel != 0 {
			return sel
		}
		for a := range lay {
			if t > now-lay[a].Step*lay[a].N {
				return a + 1
			}
		}
		return 0
	}
	var out []MPoint
	for _, p := range pts {
		d := route(p.T)
		ok := true
		if d != 0 {
			for _, q := range out {
				if route(q.T) == d && q.T > p.T && alignW(lay[d-1].Step, q.T) == alignW(lay[d-1].Step, p.T) {
					ok = false
				}
			}
		}
		if ok {
			out = append(out, p)
		}
	}
	return out
}

// drive-core <prop> <seed> <first> <ntraces> <out.ndjson>
func runDriveCore(args []string) int {
	var seed int64
	var first, n int
	fmt.Sscan(args[1], &seed)
	fmt.Sscan(args[2], &first)
	fmt.Sscan(args[3], &n)
	f, err := os.Create(args[4])
	if err != nil {
		fmt.Fprintln(os.Stderr, err)
		return 2
	}
	defer f.Close()
	d := &coreDriver{prop: args[0], seed: seed, w: bufio.NewWriterSize(f, 1<<20), dir: scratchDir()}
	defer os.RemoveAll(d.dir)
	for i := first; i < first+n; i++ {
		if err := d.oneTrace(i); err != nil {
			fmt.Fprintln(os.Stderr, "driver:", err)
			d.w.Flush()
			return 2
		}
	}
	d.w.Flush()
	fmt.Printf("{\"traces\":%d,\"lines\":%d}\n", n, d.lines)
	return 0
}
