package main

import (
	"bufio"
	"encoding/json"
	"fmt"
	"io/ioutil"
	"math/rand"
	"net/http"
	"os"
	"path/filepath"
	"sort"
	"sync"

	wt "github.com/hnakamur/whispertool"
	"github.com/hnakamur/whispertool/cmd"
)

// ---------------------------------------------------------------------------
// C17: concurrent fetches on one handle, concurrent per-file reads inside sum,
// parallel HTTP requests against one server.  Every result is logged and validated
// against the specification's SEQUENTIAL result (Trace_Core / Trace_CLI); the binary
// is built with -race and the race detector's log is an additional observable.
// ---------------------------------------------------------------------------

// drive-conc <seed> <rounds> <core-out.ndjson> <cli-out.ndjson>
func runDriveConc(args []string) int {
	var seed int64
	var rounds int
	fmt.Sscan(args[0], &seed)
	fmt.Sscan(args[1], &rounds)
	coreF, err := os.Create(args[2])
	if err != nil {
		return 2
	}
	defer coreF.Close()
	cliF, err := os.Create(args[3])
	if err != nil {
		return 2
	}
	defer cliF.Close()
	cw := bufio.NewWriter(coreF)
	lw := bufio.NewWriter(cliF)
	defer cw.Flush()
	defer lw.Flush()
	var cmu, lmu sync.Mutex
	emitCore := func(m map[string]interface{}) {
		b, _ := json.Marshal(m)
		cmu.Lock()
		cw.Write(b)
		cw.WriteByte('\n')
		cmu.Unlock()
	}
	emitCLI := func(m map[string]interface{}) {
		b, _ := json.Marshal(m)
		lmu.Lock()
		lw.Write(b)
		lw.WriteByte('\n')
		lmu.Unlock()
	}
	root := scratchDir()
	defer os.RemoveAll(root)
	srv, err := startServer(root)
	if err != nil {
		fmt.Fprintln(os.Stderr, "server:", err)
		return 2
	}
	defer srv.stop()

	for r := 0; r < rounds; r++ {
		rnd := rand.New(rand.NewSource(seed*1009 + int64(r)))
		lay := cliLayouts[rnd.Intn(len(cliLayouts))]
		k := len(lay)
		maxRet := lay[k-1].Step * lay[k-1].N
		mp := Mapping{B: drvBases[rnd.Intn(len(drvBases))], Scale: 1}
		mp.B -= mp.B % lcmAll(lay)
		now := maxRet + 2*lay[len(lay)-1].Step + 1000 + rnd.Int63n(3000)
		cmd.VerifNow = func() wt.Timestamp { return wt.Timestamp(mp.B + now) }
		base := filepath.Join(root, fmt.Sprintf("r%d", r))
		nfiles := 6 + rnd.Intn(10)
		var paths []string
		fcfgs := map[string]MCfg{}
		for i := 0; i < nfiles; i++ {
			p := filepath.Join(base, "item1", fmt.Sprintf("s%02d.wsp", i))
			// same archive list, but the files differ in aggregation method and xFilesFactor: the summed header is the
			// FIRST file's (in name order), whichever read finishes first
			fc := MCfg{Layout: lay, Method: []string{"sum", "last", "max", "min", "first"}[i%5], Xff: [][2]int64{{1, 2}, {0, 1}, {1, 1}, {1, 4}}[i%4]}
			fcfgs[p] = fc
			createFile(p, fc)
			populate(p, fc, mp, now, rnd, 1, 3+rnd.Intn(10))
			paths = append(paths, p)
		}
		sort.Strings(paths)
		// ---- 1. K concurrent fetches on ONE fresh handle (cold, lazily filled page cache)
		snap := snapshot(paths[0], fcfgs[paths[0]], mp)
		emitCore(map[string]interface{}{"ev": "create", "cfg": fcfgs[paths[0]], "post": snap.Sp, "B": mp.B, "scale": 1, "trace": r})
		db, err := wt.Open(paths[0])
		if err != nil {
			fmt.Fprintln(os.Stderr, err)
			return 2
		}
		type fq struct {
			a    int
			f, u int64
		}
		K := 8
		plans := make([][]fq, K)
		for t := 0; t < K; t++ {
			for j := 0; j < 6; j++ {
				a := rnd.Intn(k + 1)
				ret := maxRet
				if a >= 1 {
					ret = lay[a-1].Step * lay[a-1].N
				}
				f := now - rnd.Int63n(ret+3)
				u := f + rnd.Int63n(ret+3)
				if rnd.Intn(5) == 0 {
					f, u = now-ret, now
				}
				plans[t] = append(plans[t], fq{a, f, u})
			}
		}
		start := make(chan struct{})
		var wg sync.WaitGroup
		for t := 0; t < K; t++ {
			wg.Add(1)
			go func(t int) {
				defer wg.Done()
				<-start
				for _, q := range plans[t] {
					o := doFetch(db, goArchive(q.a), uint32(mp.B+q.f), uint32(mp.B+q.u), uint32(mp.B+now))
					var res []interface{}
					if o.Kind == "ts" {
						vals := make([][]int64, len(o.Vals))
						for i, v := range o.Vals {
							vals[i] = mp.modelV(v)
						}
						res = []interface{}{"ts", int64(o.From) - mp.B, int64(o.Until) - mp.B, int64(o.Step), vals}
					} else {
						res = []interface{}{o.Kind}
					}
					emitCore(map[string]interface{}{"ev": "fetch", "h": 1, "a": q.a, "f": q.f, "u": q.u, "now": now, "res": res, "thread": t, "msg": o.Msg})
				}
			}(t)
		}
		close(start)
		wg.Wait()
		db.Close()
		// ---- 2. sum reads its files concurrently
		files := []sfile{}
		for _, p := range paths {
			files = append(files, snapshot(p, fcfgs[p], mp))
		}
		e := &cliEnv{root: base, srcBase: base, destBase: base, mp: mp, now: now}
		sel := rnd.Intn(k + 1)
		f := now - rnd.Int63n(maxRet)
		u := f + rnd.Int63n(maxRet)
		runSum := func(srcBase, item, tag string) {
			c := &cmd.SumCommand{SrcBase: srcBase, ItemPattern: item, SrcPattern: "s*.wsp", From: e.realT(f), Until: e.realT(u), ArchiveID: cmdArchive(sel), ShowHeader: true}
			c.TextOut = filepath.Join(base, "sum-"+tag+".txt")
			os.Remove(c.TextOut)
			class, msg := classify(c.Execute())
			b, _ := ioutil.ReadFile(c.TextOut)
			got, other, perr := parsePointLines(string(b), mp)
			if perr != nil {
				class, msg = "err", "unparsable output: "+perr.Error()
			}
			ev := map[string]interface{}{"ev": "sum", "now": now, "sel": sel, "f": f, "u": u, "files": files, "k": class, "msg": msg, "recs": recsJSON(got, mp), "via": tag}
			for _, l := range other {
				if m := parseLTSV(l); m["aggMethod"] != "" {
					ev["hdr"] = m["aggMethod"]
				}
			}
			emitCLI(ev)
		}
		for rep := 0; rep < 6; rep++ {
			runSum(base, "item1", "local")
		}
		// ---- 3. parallel HTTP requests of every endpoint against one server
		rel := fmt.Sprintf("r%d", r)
		var hw sync.WaitGroup
		for t := 0; t < 8; t++ {
			hw.Add(1)
			go func(t int) {
				defer hw.Done()
				lr := rand.New(rand.NewSource(seed*31 + int64(r*100+t)))
				for j := 0; j < 5; j++ {
					fi := lr.Intn(len(paths))
					relFile := filepath.Join(rel, "item1", filepath.Base(paths[fi]))
					s2 := lr.Intn(k + 1)
					f2 := now - lr.Int63n(maxRet)
					u2 := f2 + lr.Int63n(maxRet)
					tout := filepath.Join(base, fmt.Sprintf("http-%d-%d.txt", t, j))
					switch lr.Intn(4) {
					case 0:
						c := &cmd.ViewCommand{SrcBase: srv.url, SrcRelPath: relFile, From: e.realT(f2), Until: e.realT(u2), ArchiveID: cmdArchive(s2), ShowHeader: false, TextOut: tout}
						class, msg := classify(c.Execute())
						b, _ := ioutil.ReadFile(tout)
						got, _, _ := parsePointLines(string(b), mp)
						emitCLI(map[string]interface{}{"ev": "view", "now": now, "sel": s2, "f": f2, "u": u2, "src": files[fi], "k": class, "msg": msg, "recs": recsJSON(got, mp), "via": "http"})
					case 1:
						c := &cmd.ViewRawCommand{SrcBase: srv.url, SrcRelPath: relFile, From: e.realT(f2), Until: e.realT(u2), ArchiveID: cmdArchive(s2), ShowHeader: false, SortsByTime: true, TextOut: tout}
						class, msg := classify(c.Execute())
						b, _ := ioutil.ReadFile(tout)
						got, _, _ := parsePointLines(string(b), mp)
						emitCLI(map[string]interface{}{"ev": "viewraw", "sorted": true, "now": now, "sel": s2, "f": f2, "u": u2, "src": files[fi], "k": class, "msg": msg, "recs": recsJSON(got, mp), "via": "http"})
					case 2:
						c := &cmd.SumCommand{SrcBase: srv.url, ItemPattern: rel + "/item1", SrcPattern: "s*.wsp", From: e.realT(f2), Until: e.realT(u2), ArchiveID: cmdArchive(s2), ShowHeader: false, TextOut: tout}
						class, msg := classify(c.Execute())
						b, _ := ioutil.ReadFile(tout)
						got, _, _ := parsePointLines(string(b), mp)
						emitCLI(map[string]interface{}{"ev": "sum", "now": now, "sel": s2, "f": f2, "u": u2, "files": files, "k": class, "msg": msg, "recs": recsJSON(got, mp), "via": "http"})
					default:
						// files endpoint through a glob diff of a file with itself: clean, every file visited
						c := &cmd.DiffCommand{SrcBase: srv.url, SrcRelPath: rel + "/item1/s0*.wsp", DestBase: srv.url, From: e.realT(f2), Until: e.realT(u2), ArchiveID: cmdArchive(s2), TextOut: tout}
						class, msg := classify(c.Execute())
						if class != "ok" {
							emitCLI(map[string]interface{}{"ev": "view", "now": now, "sel": 0, "f": 0, "u": 0, "src": files[0], "k": "glob-diff-of-a-tree-with-itself:" + class, "msg": msg, "recs": [][]interface{}{}, "via": "http"})
						}
					}
					os.Remove(tout)
				}
			}(t)
		}
		hw.Wait()
		// requests that fail in different ways, issued concurrently: every answer is the one the request gets alone
		ioutil.WriteFile(filepath.Join(base, "item1", "short.wsp"), []byte("short"), 0644)
		var bad []string
		for i := 0; i < 6; i++ {
			bad = append(bad,
				fmt.Sprintf("%s/view?file=%s/item1/s00.wsp&retention=x%d&from=a&until=b&now=c", srv.url, rel, i),
				fmt.Sprintf("%s/view?file=%s/item1/s00.wsp&retention=0&from=bad%d&until=b&now=c", srv.url, rel, i),
				fmt.Sprintf("%s/view-raw?file=%s/item1/short.wsp&retention=%d", srv.url, rel, i),
				fmt.Sprintf("%s/view-raw?file=%s/item1/s00.wsp&retention=%d", srv.url, rel, 50+i),
				fmt.Sprintf("%s/sum?item=%s.item1&pattern=s*.wsp&retention=y%d&from=a&until=b&now=c", srv.url, rel, i),
				fmt.Sprintf("%s/items?pattern=[%d", srv.url, i),
				fmt.Sprintf("%s/files?pattern=[%d", srv.url, i))
		}
		get := func(u string) string {
			resp, err := http.Get(u)
			if err != nil {
				return "client error: " + err.Error()
			}
			defer resp.Body.Close()
			b, _ := ioutil.ReadAll(resp.Body)
			return fmt.Sprintf("%d %s", resp.StatusCode, string(b))
		}
		alone := map[string]string{}
		for _, u := range bad {
			alone[u] = get(u)
		}
		var ew sync.WaitGroup
		var emu sync.Mutex
		mismatch := ""
		for t := 0; t < 8; t++ {
			ew.Add(1)
			go func(t int) {
				defer ew.Done()
				for j := 0; j < 40; j++ {
					u := bad[(t*7+j*3)%len(bad)]
					if got := get(u); got != alone[u] {
						emu.Lock()
						if mismatch == "" {
							mismatch = fmt.Sprintf("%s answered %q concurrently, %q alone", u, got, alone[u])
						}
						emu.Unlock()
					}
				}
			}(t)
		}
		ew.Wait()
		if mismatch != "" {
			emitCLI(map[string]interface{}{"ev": "view", "now": now, "sel": 0, "f": 0, "u": 0, "src": files[0], "k": "concurrent-error-response-differs", "msg": mismatch, "recs": [][]interface{}{}, "via": "http"})
		}
		os.RemoveAll(base)
	}
	cmd.VerifNow = nil
	return 0
}
