package main

import (
	"fmt"
	"os"
)

func main() {
	if len(os.Args) < 2 {
		fmt.Fprintln(os.Stderr, "usage: wverif <subcommand> ...")
		os.Exit(2)
	}
	switch os.Args[1] {
	case "core": // core <prop> <export-file> <result-json>
		os.Exit(runCore(os.Args[2:]))
	case "core-path": // core-path <prop> <export-file> <result-json>
		os.Exit(runCorePath(os.Args[2:]))
	case "drive-core": // drive-core <prop> <seed> <ntraces> <out.ndjson>
		os.Exit(runDriveCore(os.Args[2:]))
	case "drive-cli": // drive-cli <prop> <seed> <first> <count> <out.ndjson>
		os.Exit(runDriveCLI(os.Args[2:]))
	case "cli-faults": // cli-faults <table-export> <seed> <rounds> <result-json>
		os.Exit(runCLIFaults(os.Args[2:]))
	case "format": // format <export-file> <result-json>
		os.Exit(runFormat(os.Args[2:]))
	case "text-strings":
		os.Exit(runTextStrings(os.Args[2:]))
	case "drive-text":
		os.Exit(runDriveText(os.Args[2:]))
	case "text-sweep":
		os.Exit(runTextSweep(os.Args[2:]))
	case "codec":
		os.Exit(runCodec(os.Args[2:]))
	case "hostile":
		os.Exit(runHostile(os.Args[2:]))
	case "hostile-child":
		os.Exit(runHostileChild(os.Args[2:]))
	case "drive-file":
		os.Exit(runDriveFile(os.Args[2:]))
	case "file-session":
		os.Exit(runFileSession(os.Args[2:]))
	case "create-fail":
		os.Exit(runCreateFail(os.Args[2:]))
	case "drive-conc":
		os.Exit(runDriveConc(os.Args[2:]))
	case "drive-gw":
		os.Exit(runDriveGW(os.Args[2:]))
	case "sched": // sched <prop> <npages> <behaviours.ndjson> <result-json>
		os.Exit(runSched(os.Args[2:]))
	case "c05-cli":
		os.Exit(runC05CLI(os.Args[2:]))
	case "serve":
		os.Exit(runServe(os.Args[2:]))
	case "cli-worker":
		os.Exit(runCLIWorker(os.Args[2:]))
	case "cli": // cli <prop> <export-file> <result-json>
		os.Exit(runCLI(os.Args[2:]))
	default:
		fmt.Fprintln(os.Stderr, "unknown subcommand", os.Args[1])
		os.Exit(2)
	}
}
