package main

import (
	"bufio"
	"bytes"
	"encoding/json"
	"errors"
	"fmt"
	"io/ioutil"
	"math"
	"io"
	"os"
	"os/exec"
	"path/filepath"
	"runtime"
	"strconv"
	"strings"
	"sync"
	"sync/atomic"
	"time"

	wt "github.com/hnakamur/whispertool"
	"github.com/hnakamur/whispertool/cmd"
)

// ---------------------------------------------------------------------------
// spec -> code replay of WhisperCLI exports ("tree" lines): the tree is
// materialised on disk and the REAL commands are executed with the injected clock.
// ---------------------------------------------------------------------------

type MFile struct {
	Absent bool      `json:"absent"`
	Cfg    MCfg      `json:"cfg"`
	Ring   [][]MSlot `json:"ring"`
}

type recsOut struct {
	K    string            `json:"k"`
	Recs []json.RawMessage `json:"recs"`
}

type copyOut struct {
	K       string            `json:"k"`
	D       MFile             `json:"d"`
	Post    []json.RawMessage `json:"post"`
	SrcPost []json.RawMessage `json:"srcpost"`
}

type cmdRow struct {
	Sel       int     `json:"sel"`
	F         int64   `json:"f"`
	U         int64   `json:"u"`
	Cn        bool    `json:"cn"`
	Copy      copyOut `json:"copy"`
	Diff      recsOut `json:"diff"`
	Sum       recsOut `json:"sum"`
	SumCopy   copyOut `json:"sumcopy"`
	SumDiff   recsOut `json:"sumdiff"`
	View      recsOut `json:"view"`
	Raw       recsOut `json:"raw"`
	RawSorted recsOut `json:"rawsorted"`
}

type treeLine struct {
	Kind string   `json:"kind"`
	Now  int64    `json:"now"`
	Ccfg MCfg     `json:"ccfg"`
	S1   MFile    `json:"s1"`
	S2   MFile    `json:"s2"`
	D    MFile    `json:"d"`
	Rows []cmdRow `json:"rows"`
}

// a record of text output / of the model: archive (1-based), time (model), values
type rec struct {
	A int
	T int64
	V []float64
}

func (m Mapping) recsOfModel(raws []json.RawMessage) ([]rec, error) {
	out := make([]rec, 0, len(raws))
	for _, raw := range raws {
		var parts []json.RawMessage
		if err := json.Unmarshal(raw, &parts); err != nil {
			return nil, err
		}
		var r rec
		json.Unmarshal(parts[0], &r.A)
		json.Unmarshal(parts[1], &r.T)
		for _, p := range parts[2:] {
			var v []int64
			json.Unmarshal(p, &v)
			r.V = append(r.V, m.V(v))
		}
		out = append(out, r)
	}
	return out, nil
}

func sameRecs(a, b []rec) string {
	if len(a) != len(b) {
		return fmt.Sprintf("%d records, specification says %d", len(a), len(b))
	}
	for i := range a {
		if a[i].A != b[i].A || a[i].T != b[i].T || len(a[i].V) != len(b[i].V) {
			return fmt.Sprintf("record %d is %v, specification says %v", i, a[i], b[i])
		}
		for j := range a[i].V {
			if !sameVal(a[i].V[j], b[i].V[j]) {
				return fmt.Sprintf("record %d is %v, specification says %v", i, a[i], b[i])
			}
		}
	}
	return ""
}

// tolerant LTSV parsing of command output: only the fields a property names
func parseLTSV(line string) map[string]string {
	m := map[string]string{}
	for _, f := range strings.Split(line, "\t") {
		i := strings.IndexByte(f, ':')
		if i > 0 {
			m[f[:i]] = f[i+1:]
		}
	}
	return m
}

func parseTimeField(s string, mp Mapping) (int64, error) {
	t, err := time.Parse("2006-01-02T15:04:05Z", s)
	if err != nil {
		return 0, err
	}
	u := t.Unix()
	if u == 0 {
		return 0, nil
	}
	return u - mp.B, nil
}

func parseValField(s string) (float64, error) {
	if s == "NaN" {
		return math.NaN(), nil
	}
	return strconv.ParseFloat(s, 64)
}

// point lines "archive:<id> t:<time> val:<v>" (view, view-raw, sum, copy output)
func parsePointLines(text string, mp Mapping) ([]rec, []string, error) {
	var out []rec
	var other []string
	sc := bufio.NewScanner(strings.NewReader(text))
	sc.Buffer(make([]byte, 1<<20), 1<<26)
	for sc.Scan() {
		f := parseLTSV(sc.Text())
		a, okA := f["archive"]
		if !okA {
			a, okA = f["archiveID"]
		}
		ts, okT := f["t"]
		if !okA || !okT {
			other = append(other, sc.Text())
			continue
		}
		id, err := strconv.Atoi(a)
		if err != nil {
			return nil, nil, err
		}
		t, err := parseTimeField(ts, mp)
		if err != nil {
			return nil, nil, err
		}
		r := rec{A: id + 1, T: t}
		for _, key := range []string{"val", "srcVal", "destVal", "destMinusSrc"} {
			if vs, ok := f[key]; ok {
				v, err := parseValField(vs)
				if err != nil {
					return nil, nil, err
				}
				r.V = append(r.V, v)
			}
		}
		out = append(out, r)
	}
	return out, other, nil
}

type cliEnv struct {
	root, srcBase, destBase string
	mp                      Mapping
	now                     int64
}

func (e *cliEnv) path(name string) string {
	if name == "d" {
		return filepath.Join(e.destBase, "item1", "d.wsp")
	}
	return filepath.Join(e.srcBase, "item1", name+".wsp")
}

func (e *cliEnv) put(name string, f *MFile) {
	p := e.path(name)
	os.MkdirAll(filepath.Dir(p), 0755)
	os.Remove(p)
	if f.Absent {
		return
	}
	st := MState{Cfg: f.Cfg, Ring: f.Ring}
	if err := materialise(p, &st, e.mp); err != nil {
		panic(err)
	}
}

func (e *cliEnv) realT(t int64) wt.Timestamp {
	if t == 0 {
		return 0
	}
	return wt.Timestamp(e.mp.B + t)
}

func archiveInfoList(c MCfg) wt.ArchiveInfoList {
	l := make(wt.ArchiveInfoList, len(c.Layout))
	for i, a := range c.Layout {
		l[i] = wt.NewArchiveInfo(wt.Duration(a.Step), uint32(a.N))
	}
	return l
}

// cmdArchive: model selector (0 = all, 1..K, K+1 = out of range) -> -archive flag
func cmdArchive(sel int) int {
	if sel == 0 {
		return cmd.ArchiveIDAll
	}
	return sel - 1
}

type cmdResult struct {
	Class string // ok | diff | notexist | err | panic
	Msg   string
	Text  string
}

func classify(err error) (string, string) {
	if err == nil {
		return "ok", ""
	}
	if errors.Is(err, cmd.ErrDiffFound) {
		return "diff", err.Error()
	}
	if os.IsNotExist(err) || errors.Is(err, os.ErrNotExist) {
		return "notexist", err.Error()
	}
	return "err", err.Error()
}

func (e *cliEnv) runCmd(c cmd.Command, textOut *string) (res cmdResult) {
	outFile := filepath.Join(e.root, "out.txt")
	os.Remove(outFile)
	*textOut = outFile
	func() {
		defer func() {
			if r := recover(); r != nil {
				res.Class, res.Msg = "panic", fmt.Sprint(r)
			}
		}()
		res.Class, res.Msg = classify(c.Execute())
	}()
	b, _ := ioutil.ReadFile(outFile)
	res.Text = string(b)
	return res
}

func (e *cliEnv) readRing(name string) ([][]RSlot, *wt.Header, error) {
	db, err := wt.Open(e.path(name), wt.WithoutFlock())
	if err != nil {
		return nil, nil, err
	}
	defer db.Close()
	r, err := project(db)
	h := *db.Header()
	return r, &h, err
}

// post-state of a file as the property sees it: library fetches of the selected archives/window
func (e *cliEnv) postRecs(name string, sel int, f, u int64) ([]rec, error) {
	db, err := wt.Open(e.path(name), wt.WithoutFlock())
	if err != nil {
		return nil, err
	}
	defer db.Close()
	k := len(db.ArchiveInfoList())
	until := u
	if u == 0 {
		until = e.now
	}
	var out []rec
	for a := 1; a <= k; a++ {
		if sel != 0 && sel != a {
			continue
		}
		o := doFetch(db, a-1, uint32(e.realT(f)), uint32(e.realT(until)), uint32(e.mp.B+e.now))
		if o.Kind != "ts" {
			continue
		}
		for i, v := range o.Vals {
			out = append(out, rec{A: a, T: int64(o.Times[i]) - e.mp.B, V: []float64{v}})
		}
	}
	return out, nil
}

type cliRunner struct {
	progress func(row int, name string)
	prop  string
	viols []violation
	stats map[string]int64
	samp  []interface{}
}

func (cr *cliRunner) viol(what, detail string, tl *treeLine, row *cmdRow, mp Mapping, sig string) {
	if len(cr.viols) < 40 {
		one := *tl
		one.Rows = []cmdRow{*row}
		cr.viols = append(cr.viols, violation{Prop: cr.prop, What: what, Detail: detail, Line: one, B: mp.B, Scale: mp.Scale, Sig: sig})
	}
}

func wantClass(model string) []string {
	switch model {
	case "ok", "clean":
		return []string{"ok"}
	case "diff":
		return []string{"diff"}
	case "missing":
		return []string{"ok"}
	case "notexist":
		return []string{"notexist"}
	case "err":
		return []string{"err"}
	case "err-or-diff":
		return []string{"err", "diff"}
	case "err-or-missing":
		return []string{"err", "ok"}
	}
	return []string{model}
}

func classOK(model, got string) bool {
	for _, w := range wantClass(model) {
		if w == got {
			return true
		}
	}
	return false
}

func fileMatches(ring [][]RSlot, h *wt.Header, want *MFile, mp Mapping) string {
	w := mp.RingToReal(want.Ring)
	if len(ring) != len(w) {
		return fmt.Sprintf("%d archives, specification says %d", len(ring), len(w))
	}
	for a := range w {
		if len(ring[a]) != len(w[a]) {
			return fmt.Sprintf("archive %d has %d slots, specification says %d", a, len(ring[a]), len(w[a]))
		}
	}
	if int(h.AggregationMethod()) != int(methodNum[want.Cfg.Method]) || h.XFilesFactor() != xffFloat(want.Cfg.Xff) {
		return "header differs from the requested configuration"
	}
	return ""
}

func (cr *cliRunner) runTree(id int64, tl *treeLine, root string, maps []Mapping) {
	mp := pickMapping(maps, tl.Ccfg, id)
	if !tl.S2.Absent {
		l := lcmAll(tl.S2.Cfg.Layout)
		mp.B -= mp.B % l
	}
	if !tl.D.Absent {
		l := lcmAll(tl.D.Cfg.Layout)
		mp.B -= mp.B % l
	}
	e := &cliEnv{root: root, srcBase: filepath.Join(root, "src"), destBase: filepath.Join(root, "dst"), mp: mp, now: tl.Now}
	os.RemoveAll(e.srcBase)
	os.RemoveAll(e.destBase)
	cmd.VerifNow = func() wt.Timestamp { return wt.Timestamp(mp.B + tl.Now) }
	defer func() { cmd.VerifNow = nil }()
	reset := func() {
		e.put("s1", &tl.S1)
		e.put("s2", &tl.S2)
		e.put("d", &tl.D)
	}
	for ri := range tl.Rows {
		row := &tl.Rows[ri]
		from, until := e.realT(row.F), e.realT(row.U)
		arch := cmdArchive(row.Sel)
		want := func(p string) bool { return cr.prop == p || cr.prop == "C16" || cr.prop == "ALLCLI" }
		// ---------------- copy
		if want("C08") {
			reset()
			srcBefore, _ := ioutil.ReadFile(e.path("s1"))
			c := &cmd.CopyCommand{SrcBase: e.srcBase, SrcRelPath: "item1/s1.wsp", DestBase: e.destBase, DestRelPath: "item1/d.wsp",
				AggregationMethod: methodOf(tl.Ccfg.Method), XFilesFactor: xffFloat(tl.Ccfg.Xff), ArchiveInfoList: archiveInfoList(tl.Ccfg),
				From: from, Until: until, ArchiveID: arch, CopyNaN: row.Cn}
			cr.note(ri, "copy")
			res := e.runCmd(c, &c.TextOut)
			cr.stats["copy"]++
			cr.checkCopy("copy", res, &row.Copy, e, tl, row, srcBefore, func() cmdResult {
				c2 := *c
				return e.runCmd(&c2, &c2.TextOut)
			})
		}
		// ---------------- diff
		if want("C09") {
			reset()
			c := &cmd.DiffCommand{SrcBase: e.srcBase, SrcRelPath: "item1/s1.wsp", DestBase: e.destBase, DestRelPath: "../../dst/item1/d.wsp",
				From: from, Until: until, ArchiveID: arch}
			c.DestBase = e.destBase
			c.DestRelPath = "item1/d.wsp"
			cr.note(ri, "diff")
			res := e.runCmd(c, &c.TextOut)
			cr.stats["diff"]++
			cr.checkRecs("diff", res, &row.Diff, e, tl, row)
		}
		// ---------------- sum
		if want("C10") {
			reset()
			c := &cmd.SumCommand{SrcBase: e.srcBase, ItemPattern: "item1", SrcPattern: "s*.wsp", From: from, Until: until, ArchiveID: arch, ShowHeader: false}
			cr.note(ri, "sum")
			res := e.runCmd(c, &c.TextOut)
			cr.stats["sum"]++
			cr.checkRecs("sum", res, &row.Sum, e, tl, row)
		}
		// ---------------- sum-copy / sum-diff
		c11ok := true
		if cr.prop == "C11" {
			// C11 is relative to what sum computes: if the real sum deviates from the specification on this row,
			// that is C10's finding and the row is not judged here
			reset()
			sc := &cmd.SumCommand{SrcBase: e.srcBase, ItemPattern: "item1", SrcPattern: "s*.wsp", From: from, Until: until, ArchiveID: arch, ShowHeader: false}
			cr.note(ri, "sum")
			sres := e.runCmd(sc, &sc.TextOut)
			got, _, perr := parsePointLines(sres.Text, e.mp)
			wr, _ := e.mp.recsOfModel(row.Sum.Recs)
			if sres.Class == "panic" || perr != nil || !classOK(row.Sum.K, sres.Class) || (sres.Class == "ok" && sameRecs(got, wr) != "") {
				c11ok = false
				cr.stats["rows_skipped_sum_deviates"]++
			}
		}
		if want("C11") && c11ok {
			reset()
			c := &cmd.SumCopyCommand{SrcBase: e.srcBase, DestBase: e.destBase, ItemPattern: "item1", SrcPattern: "s*.wsp", DestRelPath: "d.wsp",
				AggregationMethod: methodOf(tl.Ccfg.Method), XFilesFactor: xffFloat(tl.Ccfg.Xff), ArchiveInfoList: archiveInfoList(tl.Ccfg),
				From: from, Until: until, ArchiveID: arch}
			cr.note(ri, "sum-copy")
			res := e.runCmd(c, &c.TextOut)
			cr.stats["sumcopy"]++
			cr.checkCopy("sum-copy", res, &row.SumCopy, e, tl, row, nil, func() cmdResult {
				c2 := *c
				return e.runCmd(&c2, &c2.TextOut)
			})
			if res.Class == "ok" && row.SumCopy.K == "ok" {
				// sum-diff over the same window is clean afterwards
				sd := &cmd.SumDiffCommand{SrcBase: e.srcBase, ItemPattern: "item1", SrcPattern: "s*.wsp", DestBase: e.destBase, DestRelPath: "d.wsp",
					From: from, Until: until, ArchiveID: arch}
				r2 := e.runCmd(sd, &sd.TextOut)
				if r2.Class != "ok" {
					cr.viol("sum-diff after sum-copy is not clean", r2.Class+": "+r2.Msg+" "+firstLines(r2.Text, 4), tl, row, e.mp, "")
				}
			}
			reset()
			sd := &cmd.SumDiffCommand{SrcBase: e.srcBase, ItemPattern: "item1", SrcPattern: "s*.wsp", DestBase: e.destBase, DestRelPath: "d.wsp",
				From: from, Until: until, ArchiveID: arch}
			cr.note(ri, "sum-diff")
			res = e.runCmd(sd, &sd.TextOut)
			cr.stats["sumdiff"]++
			cr.checkRecs("sum-diff", res, &row.SumDiff, e, tl, row)
		}
		// ---------------- view / view-raw
		if want("C18") {
			reset()
			c := &cmd.ViewCommand{SrcBase: e.srcBase, SrcRelPath: "item1/s1.wsp", From: from, Until: until, ArchiveID: arch, ShowHeader: ri%2 == 0}
			cr.note(ri, "view")
			res := e.runCmd(c, &c.TextOut)
			cr.stats["view"]++
			cr.checkRecs("view", res, &row.View, e, tl, row)
			if c.ShowHeader && res.Class == "ok" {
				cr.checkHeaderText(res.Text, &tl.S1, tl, row, e)
			}
			for _, sorted := range []bool{false, true} {
				vr := &cmd.ViewRawCommand{SrcBase: e.srcBase, SrcRelPath: "item1/s1.wsp", From: from, Until: until, ArchiveID: arch, ShowHeader: false, SortsByTime: sorted}
				res := e.runCmd(vr, &vr.TextOut)
				cr.stats["viewraw"]++
				if sorted {
					cr.checkRecs("view-raw -sort", res, &row.RawSorted, e, tl, row)
				} else {
					cr.checkRecs("view-raw", res, &row.Raw, e, tl, row)
				}
			}
		}
	}
}

func (cr *cliRunner) note(row int, name string) {
	if cr.progress != nil {
		cr.progress(row, name)
	}
}

func firstLines(s string, n int) string {
	l := strings.SplitN(s, "\n", n+1)
	if len(l) > n {
		l = l[:n]
	}
	return strings.Join(l, " | ")
}

func (cr *cliRunner) checkRecs(name string, res cmdResult, want *recsOut, e *cliEnv, tl *treeLine, row *cmdRow) {
	if res.Class == "panic" {
		if cr.prop == "C16" || true {
			cr.viol(name+" panics", res.Msg, tl, row, e.mp, "cmd-panic:"+name+":"+panicSig(res.Msg))
		}
		return
	}
	if cr.prop == "C16" {
		// no silent success: where the specification requires an error (unreadable / missing input, layouts that do
		// not match, archive id out of range) the command must not report success
		if (res.Class == "ok" || res.Class == "diff") && !classOK(want.K, "ok") && !classOK(want.K, "diff") {
			cr.viol(name+" reports success where an error is required", fmt.Sprintf("%s, specification says %s", res.Class, want.K), tl, row, e.mp, "")
			return
		}
		// success must come with the effect: the output the specification describes
		if res.Class == "ok" && classOK(want.K, "ok") {
			got, _, err := parsePointLines(res.Text, e.mp)
			wr, _ := e.mp.recsOfModel(want.Recs)
			if err == nil && len(got) != len(wr) && !(name == "sum-diff" || name == "diff") {
				cr.viol(name+" reports success without its output", fmt.Sprintf("%d records written, %d expected", len(got), len(wr)), tl, row, e.mp, "")
			}
		}
		return
	}
	if !classOK(want.K, res.Class) {
		cr.viol(name+" outcome", fmt.Sprintf("%s (%s), specification says %s", res.Class, res.Msg, want.K), tl, row, e.mp, "")
		return
	}
	got, _, err := parsePointLines(res.Text, e.mp)
	if err != nil {
		cr.viol(name+" output unparsable", err.Error()+": "+firstLines(res.Text, 3), tl, row, e.mp, "")
		return
	}
	wr, err := e.mp.recsOfModel(want.Recs)
	if err != nil {
		panic(err)
	}
	if res.Class == "err" || res.Class == "notexist" {
		return
	}
	if d := sameRecs(got, wr); d != "" {
		cr.viol(name+" output", d, tl, row, e.mp, "")
	}
}

func panicSig(msg string) string {
	if strings.Contains(msg, "nil pointer") {
		return "nil-series"
	}
	if len(msg) > 40 {
		return msg[:40]
	}
	return msg
}

func (cr *cliRunner) checkCopy(name string, res cmdResult, want *copyOut, e *cliEnv, tl *treeLine, row *cmdRow, srcBefore []byte, again func() cmdResult) {
	if res.Class == "panic" {
		cr.viol(name+" panics", res.Msg, tl, row, e.mp, "cmd-panic:"+name+":"+panicSig(res.Msg))
		return
	}
	ring, h, err := e.readRing("d")
	if cr.prop == "C16" {
		if res.Class == "ok" && want.K != "ok" {
			cr.viol(name+" reports success where an error is required", fmt.Sprintf("ok, specification says %s", want.K), tl, row, e.mp, "")
			return
		}
		if res.Class == "ok" && want.K == "ok" {
			if err != nil {
				cr.viol(name+" reports success but the destination does not exist", err.Error(), tl, row, e.mp, "")
				return
			}
			got, _ := e.postRecs("d", row.Sel, row.F, row.U)
			wr, _ := e.mp.recsOfModel(want.Post)
			if d := sameRecs(got, wr); d != "" {
				cr.viol(name+" reports success without having done its work", d, tl, row, e.mp, "")
			}
		}
		return
	}
	if !classOK(want.K, res.Class) {
		cr.viol(name+" outcome", fmt.Sprintf("%s (%s), specification says %s", res.Class, res.Msg, want.K), tl, row, e.mp, "")
		return
	}
	if srcBefore != nil {
		after, _ := ioutil.ReadFile(e.path("s1"))
		if !bytes.Equal(after, srcBefore) {
			cr.viol(name+" modified the source file", "", tl, row, e.mp, "")
			return
		}
	}
	// the destination exists afterwards (created when absent, even with nothing to copy)
	if err != nil {
		cr.viol(name+": destination missing/unreadable afterwards", err.Error(), tl, row, e.mp, "")
		return
	}
	if d := fileMatches(ring, h, &want.D, e.mp); d != "" && tl.D.Absent {
		cr.viol(name+": created destination", d, tl, row, e.mp, "")
		return
	}
	if res.Class != "ok" {
		// a reported failure writes nothing: the destination is the specification's (unchanged/created-empty) file
		w := e.mp.RingToReal(want.D.Ring)
		for a := range w {
			if a < len(ring) && !sameSlots(ring[a], w[a]) {
				cr.viol(name+" failed but changed the destination", fmt.Sprintf("archive %d: %s, specification says %s", a, fmtSlots(ring[a]), fmtSlots(w[a])), tl, row, e.mp, "")
				return
			}
		}
		return
	}
	got, err := e.postRecs("d", row.Sel, row.F, row.U)
	if err != nil {
		cr.viol(name+": destination unreadable", err.Error(), tl, row, e.mp, "")
		return
	}
	wr, _ := e.mp.recsOfModel(want.Post)
	if d := sameRecs(got, wr); d != "" {
		cr.viol(name+": destination over the requested window", d, tl, row, e.mp, copySig(name, got, wr, want, e))
		return
	}
	// repeating the same command changes nothing
	before, _ := ioutil.ReadFile(e.path("d"))
	r2 := again()
	after, _ := ioutil.ReadFile(e.path("d"))
	if r2.Class != "ok" || !bytes.Equal(before, after) {
		cr.viol(name+" is not idempotent", fmt.Sprintf("second run: %s %s; destination bytes changed=%v", r2.Class, r2.Msg, !bytes.Equal(before, after)), tl, row, e.mp, "")
		return
	}
	if name == "copy" && row.Cn {
		dc := &cmd.DiffCommand{SrcBase: e.srcBase, SrcRelPath: "item1/s1.wsp", DestBase: e.destBase, DestRelPath: "item1/d.wsp",
			From: e.realT(row.F), Until: e.realT(row.U), ArchiveID: cmdArchive(row.Sel)}
		r3 := e.runCmd(dc, &dc.TextOut)
		if r3.Class != "ok" {
			cr.viol("diff after copy is not clean", r3.Class+" "+firstLines(r3.Text, 4), tl, row, e.mp, "")
		}
	}
}

func copySig(name string, got, want []rec, w *copyOut, e *cliEnv) string { return "" }

func (cr *cliRunner) checkHeaderText(text string, f *MFile, tl *treeLine, row *cmdRow, e *cliEnv) {
	// header lines: aggMethod, maxRetention, xFileFactor, archiveCount; per archive durationPerPoint / numberOfPoints / offset
	sc := bufio.NewScanner(strings.NewReader(text))
	var first map[string]string
	var archs []map[string]string
	for sc.Scan() {
		m := parseLTSV(sc.Text())
		if _, ok := m["aggMethod"]; ok {
			first = m
		}
		if _, ok := m["archiveInfo"]; ok {
			archs = append(archs, m)
		}
	}
	bad := func(d string) { cr.viol("view header", d, tl, row, e.mp, "") }
	if first == nil {
		bad("no header line")
		return
	}
	if first["aggMethod"] != f.Cfg.Method || first["archiveCount"] != strconv.Itoa(len(f.Cfg.Layout)) {
		bad(fmt.Sprintf("header line %v", first))
		return
	}
	if x, err := strconv.ParseFloat(first["xFileFactor"], 32); err != nil || float32(x) != xffFloat(f.Cfg.Xff) {
		bad("xFileFactor " + first["xFileFactor"])
		return
	}
	if len(archs) != len(f.Cfg.Layout) {
		bad(fmt.Sprintf("%d archive lines", len(archs)))
		return
	}
	off := 16 + 12*len(f.Cfg.Layout)
	for i, a := range f.Cfg.Layout {
		d, err := wt.ParseDuration(archs[i]["durationPerPoint"])
		if err != nil || int64(d) != a.Step || archs[i]["numberOfPoints"] != strconv.FormatInt(a.N, 10) || archs[i]["offset"] != strconv.Itoa(off) {
			bad(fmt.Sprintf("archive line %d: %v", i, archs[i]))
			return
		}
		off += int(a.N) * 12
	}
}

// cli-worker <prop>: reads one tree line per stdin line, answers one JSON line per tree.
// Before every command it prints "P <row> <command>" so that the parent can attribute a crash
// (a panic in a goroutine started by a command cannot be recovered in-process).
func runCLIWorker(args []string) int {
	prop := args[0]
	root := scratchDir()
	defer os.RemoveAll(root)
	maps := []Mapping{{B: 0, Scale: 1}, {B: 1600000000, Scale: 0.25}, {B: 2147480000, Scale: 1024}, {B: 2300000000, Scale: 1}, {B: 4294900000, Scale: 0.25}}
	sc := bufio.NewScanner(os.Stdin)
	sc.Buffer(make([]byte, 1<<20), 1<<28)
	w := bufio.NewWriter(os.Stdout)
	var srv *serverProc
	defer func() { srv.stop() }()
	for sc.Scan() {
		var job struct {
			ID   int64    `json:"id"`
			Tree treeLine `json:"tree"`
		}
		if err := json.Unmarshal(sc.Bytes(), &job); err != nil {
			fmt.Fprintln(os.Stderr, "worker: bad job:", err)
			return 2
		}
		cr := &cliRunner{prop: prop, stats: map[string]int64{}}
		cr.progress = func(row int, name string) {
			fmt.Fprintf(w, "P %d %s\n", row, name)
			w.Flush()
		}
		if prop == "C12" {
			if srv == nil || !srv.alive() {
				srv.stop()
				var err error
				srv, err = startServer(root)
				if err != nil {
					fmt.Fprintln(os.Stderr, "worker: cannot start server:", err)
					return 2
				}
			}
			cr.runTreeRemote(job.ID, &job.Tree, root, maps, srv)
		} else {
			cr.runTree(job.ID, &job.Tree, root, maps)
		}
		b, _ := json.Marshal(map[string]interface{}{"viols": cr.viols, "stats": cr.stats})
		w.WriteString("R ")
		w.Write(b)
		w.WriteString("\n")
		w.Flush()
	}
	return 0
}

var workerSeq int64

type cliWorker struct {
	cmd    *exec.Cmd
	in     io.WriteCloser
	out    *bufio.Scanner
	errbuf *bytes.Buffer
}

func startCLIWorker(prop string) (*cliWorker, error) {
	self, err := os.Executable()
	if err != nil {
		return nil, err
	}
	c := exec.Command(self, "cli-worker", prop)
	if n := atomic.AddInt64(&workerSeq, 1); n%2 == 0 {
		// printed times are UTC whatever the local zone of the process is
		c.Env = append(os.Environ(), "TZ=Asia/Tokyo")
	}
	in, err := c.StdinPipe()
	if err != nil {
		return nil, err
	}
	outp, err := c.StdoutPipe()
	if err != nil {
		return nil, err
	}
	eb := &bytes.Buffer{}
	c.Stderr = eb
	if err := c.Start(); err != nil {
		return nil, err
	}
	sc := bufio.NewScanner(outp)
	sc.Buffer(make([]byte, 1<<20), 1<<28)
	return &cliWorker{cmd: c, in: in, out: sc, errbuf: eb}, nil
}

// cli <prop> <export-file> <result-json>
func runCLI(args []string) int {
	prop, in, out := args[0], args[1], args[2]
	f, err := os.Open(in)
	if err != nil {
		fmt.Fprintln(os.Stderr, err)
		return 2
	}
	defer f.Close()
	type job struct {
		id   int64
		tree treeLine
	}
	jobs := make(chan job, 64)
	var mu sync.Mutex
	total := &cliRunner{prop: prop, stats: map[string]int64{}}
	var trees, bad, crashes int64
	var wg sync.WaitGroup
	nw := runtime.NumCPU()
	for i := 0; i < nw; i++ {
		wg.Add(1)
		go func() {
			defer wg.Done()
			var wk *cliWorker
			defer func() {
				if wk != nil {
					wk.in.Close()
					wk.cmd.Wait()
				}
			}()
			for j := range jobs {
				if wk == nil {
					var err error
					wk, err = startCLIWorker(prop)
					if err != nil {
						fmt.Fprintln(os.Stderr, "cannot start worker:", err)
						atomic.AddInt64(&bad, 1)
						continue
					}
				}
				b, _ := json.Marshal(map[string]interface{}{"id": j.id, "tree": j.tree})
				wk.in.Write(append(b, '\n'))
				lastRow, lastCmd := -1, ""
				done := false
				for wk.out.Scan() {
					line := wk.out.Text()
					if strings.HasPrefix(line, "P ") {
						fmt.Sscanf(line, "P %d %s", &lastRow, &lastCmd)
						continue
					}
					if strings.HasPrefix(line, "R ") {
						var r struct {
							Viols []violation      `json:"viols"`
							Stats map[string]int64 `json:"stats"`
						}
						if err := json.Unmarshal([]byte(line[2:]), &r); err != nil {
							atomic.AddInt64(&bad, 1)
						}
						mu.Lock()
						for k, v := range r.Stats {
							total.stats[k] += v
						}
						for _, v := range r.Viols {
							if len(total.viols) < 60 {
								total.viols = append(total.viols, v)
							}
						}
						mu.Unlock()
						done = true
						break
					}
				}
				if !done {
					// the worker died: a panic outside the calling goroutine (or a fatal error) in the command
					wk.cmd.Wait()
					msg := wk.errbuf.String()
					if len(msg) > 1500 {
						msg = msg[:1500]
					}
					wk = nil
					atomic.AddInt64(&crashes, 1)
					if strings.Contains(msg, "panic:") || strings.Contains(msg, "fatal error:") {
						one := j.tree
						if lastRow >= 0 && lastRow < len(one.Rows) {
							one.Rows = []cmdRow{one.Rows[lastRow]}
						}
						mu.Lock()
						if len(total.viols) < 60 {
							total.viols = append(total.viols, violation{Prop: prop, What: lastCmd + " crashes the process (panic in a goroutine)",
								Detail: msg, Line: one, Sig: "cmd-panic:" + lastCmd + ":" + panicSig(msg)})
						}
						mu.Unlock()
					} else {
						atomic.AddInt64(&bad, 1)
						fmt.Fprintln(os.Stderr, "worker died without a panic:", msg)
					}
				}
				atomic.AddInt64(&trees, 1)
			}
		}()
	}
	sc := bufio.NewScanner(f)
	sc.Buffer(make([]byte, 1<<20), 1<<28)
	var id int64
	var samp []interface{}
	for sc.Scan() {
		b := sc.Bytes()
		if len(b) < 10 || !(b[0] == '"' || b[0] == '{') {
			continue
		}
		id++
		data := append([]byte{}, b...)
		if data[0] == '"' {
			var s string
			if err := json.Unmarshal(data, &s); err != nil {
				bad++
				continue
			}
			data = []byte(s)
		}
		var tl treeLine
		if err := json.Unmarshal(data, &tl); err != nil || tl.Kind != "tree" {
			bad++
			continue
		}
		if len(samp) < 2 && len(tl.Rows) > 0 && id > 20 {
			one := tl
			one.Rows = tl.Rows[:1]
			samp = append(samp, one)
		}
		jobs <- job{id, tl}
	}
	close(jobs)
	wg.Wait()
	res := map[string]interface{}{"property": prop, "trees": trees, "bad_lines": bad, "commands": total.stats, "worker_crashes": crashes,
		"violations": append([]violation{}, total.viols...), "samples": samp}
	bts, _ := json.MarshalIndent(res, "", " ")
	if err := ioutil.WriteFile(out, bts, 0644); err != nil {
		fmt.Fprintln(os.Stderr, err)
		return 2
	}
	if bad > 0 {
		return 2
	}
	return 0
}
