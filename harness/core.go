package main

import (
	"bufio"
	"encoding/json"
	"fmt"
	"io/ioutil"
	"math"
	"os"
	"path/filepath"
	"runtime"
	"sync"
	"sync/atomic"

	wt "github.com/hnakamur/whispertool"
)

// ---------------------------------------------------------------------------
// spec -> code replay of WhisperCore exports ("state" and "edge" lines)
// ---------------------------------------------------------------------------

type coreLine struct {
	Kind string            `json:"kind"`
	S    MState            `json:"s"`
	Op   *MOp              `json:"op,omitempty"`
	S2   *MState           `json:"s2,omitempty"`
	Grid []json.RawMessage `json:"grid,omitempty"`
}

type violation struct {
	Prop   string      `json:"property"`
	What   string      `json:"what"`
	Line   interface{} `json:"line"`
	Detail string      `json:"detail"`
	B      int64       `json:"B"`
	Scale  float64     `json:"scale"`
	Sig    string      `json:"signature,omitempty"`
}

type coreStats struct {
	States, Edges, Fetches, Compared int64
	Skipped                          int64
}

var scratchRoot string

func scratchDir() string {
	if scratchRoot != "" {
		return scratchRoot
	}
	base := os.Getenv("WVERIF_SCRATCH")
	if base == "" {
		base = "/dev/shm"
	}
	if st, err := os.Stat(base); err != nil || !st.IsDir() {
		base = os.TempDir()
	}
	d, err := ioutil.TempDir(base, "wverif-")
	if err != nil {
		panic(err)
	}
	scratchRoot = d
	return d
}

func methodOf(s string) wt.AggregationMethod {
	switch s {
	case "average":
		return wt.Average
	case "sum":
		return wt.Sum
	case "last":
		return wt.Last
	case "max":
		return wt.Max
	case "min":
		return wt.Min
	case "first":
		return wt.First
	}
	panic("method " + s)
}

// materialise writes the model state as a classic Whisper file (independent encoder).
func materialise(path string, s *MState, m Mapping) error {
	return ioutil.WriteFile(path, encodeFile(s.Cfg, m.RingToReal(s.Ring)), 0644)
}

// project reads the complete abstract state through the public API.
func project(db *wt.Whisper) ([][]RSlot, error) {
	k := len(db.ArchiveInfoList())
	out := make([][]RSlot, k)
	for a := 0; a < k; a++ {
		pts, err := db.GetAllRawUnsortedPoints(a)
		if err != nil {
			return nil, err
		}
		out[a] = make([]RSlot, len(pts))
		for i, p := range pts {
			out[a][i] = RSlot{T: uint32(p.Time), V: float64(p.Value)}
		}
	}
	return out, nil
}

// goArchive maps a model archive selector (0 = best, 1..K, -1 / K+1 out of range) to the API's id.
func goArchive(a int) int {
	if a == 0 {
		return wt.ArchiveIDBest
	}
	if a < 0 {
		return -2
	}
	return a - 1
}

type fetchObs struct {
	Kind  string // err | nil | ts | panic
	From  uint32
	Until uint32
	Step  int32
	Vals  []float64
	Times []uint32
	Msg   string
}

func doFetch(db *wt.Whisper, a int, from, until, now uint32) (o fetchObs) {
	defer func() {
		if r := recover(); r != nil {
			o = fetchObs{Kind: "panic", Msg: fmt.Sprint(r)}
		}
	}()
	ts, err := db.FetchFromArchive(a, wt.Timestamp(from), wt.Timestamp(until), wt.Timestamp(now))
	if err != nil {
		return fetchObs{Kind: "err", Msg: err.Error()}
	}
	if ts == nil {
		return fetchObs{Kind: "nil"}
	}
	o = fetchObs{Kind: "ts", From: uint32(ts.FromTime()), Until: uint32(ts.UntilTime()), Step: int32(ts.Step())}
	for _, v := range ts.Values() {
		o.Vals = append(o.Vals, float64(v))
	}
	for _, p := range ts.Points() {
		o.Times = append(o.Times, uint32(p.Time))
	}
	return o
}

type gridRow struct {
	A, F, U          int64
	K                string
	From, Until, Stp int64
	Vals             [][]int64
	Arch             int64
	Deg              bool
}

func parseRow(raw json.RawMessage) (gridRow, error) {
	var parts []json.RawMessage
	var r gridRow
	if err := json.Unmarshal(raw, &parts); err != nil {
		return r, err
	}
	if len(parts) < 4 {
		return r, fmt.Errorf("short grid row")
	}
	json.Unmarshal(parts[0], &r.A)
	json.Unmarshal(parts[1], &r.F)
	json.Unmarshal(parts[2], &r.U)
	json.Unmarshal(parts[3], &r.K)
	if r.K == "ts" {
		if len(parts) < 9 {
			return r, fmt.Errorf("short ts row")
		}
		json.Unmarshal(parts[4], &r.From)
		json.Unmarshal(parts[5], &r.Until)
		json.Unmarshal(parts[6], &r.Stp)
		json.Unmarshal(parts[7], &r.Vals)
		json.Unmarshal(parts[8], &r.Arch)
		if len(parts) > 9 {
			json.Unmarshal(parts[9], &r.Deg)
		}
	}
	return r, nil
}

// shapeMismatch compares kind / bounds / step / count / point times (C04's projection).
func shapeMismatch(r gridRow, o fetchObs, m Mapping) string {
	if o.Kind == "panic" {
		return "panic: " + o.Msg
	}
	if r.K != o.Kind {
		return fmt.Sprintf("kind %s, specification says %s", o.Kind, r.K)
	}
	if r.K != "ts" {
		return ""
	}
	if int64(o.From) != m.B+r.From || int64(o.Until) != m.B+r.Until || int64(o.Step) != r.Stp {
		return fmt.Sprintf("series from=%d until=%d step=%d, specification says from=%d until=%d step=%d",
			o.From, o.Until, o.Step, m.B+r.From, m.B+r.Until, r.Stp)
	}
	if len(o.Vals) != len(r.Vals) {
		return fmt.Sprintf("%d values, specification says %d", len(o.Vals), len(r.Vals))
	}
	for i, t := range o.Times {
		if int64(t) != m.B+r.From+int64(i)*r.Stp {
			return fmt.Sprintf("point %d has time %d, specification says %d", i, t, m.B+r.From+int64(i)*r.Stp)
		}
	}
	return ""
}

// valueMismatch compares the values of a series whose shape already agrees (C01's projection).
func valueMismatch(r gridRow, o fetchObs, m Mapping) string {
	if r.K != "ts" || o.Kind != "ts" || len(o.Vals) != len(r.Vals) {
		return ""
	}
	for i := range r.Vals {
		if !sameVal(o.Vals[i], m.V(r.Vals[i])) {
			return fmt.Sprintf("value %d (interval %d) is %v, specification says %v", i, m.B+r.From+int64(i)*r.Stp, o.Vals[i], m.V(r.Vals[i]))
		}
	}
	return ""
}

type coreRunner struct {
	prop   string
	maps   []Mapping
	stats  coreStats
	mu     sync.Mutex
	viols  []violation
	sample []interface{}
	gw     bool // cross-read with go-whisper (C06)
}

func (cr *coreRunner) addViol(v violation) {
	cr.mu.Lock()
	defer cr.mu.Unlock()
	if len(cr.viols) < 50 {
		cr.viols = append(cr.viols, v)
	}
}

func pickMapping(maps []Mapping, cfg MCfg, idx int64) Mapping {
	m := maps[int(idx)%len(maps)]
	l := lcmAll(cfg.Layout)
	m.B -= m.B % l
	return m
}

func (cr *coreRunner) runState(id int64, ln *coreLine, dir string) {
	m := pickMapping(cr.maps, ln.S.Cfg, id)
	path := filepath.Join(dir, fmt.Sprintf("s%d.wsp", id))
	defer os.Remove(path)
	if err := materialise(path, &ln.S, m); err != nil {
		panic(err)
	}
	db, err := wt.Open(path, wt.WithoutFlock())
	if err != nil {
		if cr.prop == "C06" {
			cr.addViol(violation{Prop: cr.prop, What: "Open rejects a classic-format file", Line: ln.S, Detail: err.Error(), B: m.B, Scale: m.Scale})
		}
		return
	}
	defer db.Close()
	now := uint32(m.B + ln.S.Now)
	atomic.AddInt64(&cr.stats.States, 1)
	if cr.prop == "C06" {
		// the API view of the handle must equal the independently encoded state
		obs, err := project(db)
		want := m.RingToReal(ln.S.Ring)
		if err != nil {
			cr.addViol(violation{Prop: cr.prop, What: "raw dump fails on a classic-format file", Line: ln.S, Detail: err.Error(), B: m.B, Scale: m.Scale})
			return
		}
		for a := range want {
			if !sameSlots(obs[a], want[a]) {
				cr.addViol(violation{Prop: cr.prop, What: "physical slots read differ from the bytes on disk", Line: ln.S,
					Detail: fmt.Sprintf("archive %d: read %s, file holds %s", a, fmtSlots(obs[a]), fmtSlots(want[a])), B: m.B, Scale: m.Scale})
				return
			}
		}
	}
	var gwf *gwFile
	if cr.gw {
		gwf = gwOpen(path, now)
		if gwf != nil {
			defer gwf.Close()
			if d := gwf.metaMismatch(ln.S.Cfg); d != "" {
				cr.addViol(violation{Prop: cr.prop, What: "reference reader sees different metadata", Line: ln.S, Detail: d, B: m.B, Scale: m.Scale})
			}
		} else {
			cr.addViol(violation{Prop: cr.prop, What: "reference reader cannot open the file", Line: ln.S, B: m.B, Scale: m.Scale})
		}
	}
	for _, raw := range ln.Grid {
		r, err := parseRow(raw)
		if err != nil {
			panic(err)
		}
		// model windows are offsets; real window = B + offset
		o := doFetch(db, goArchive(int(r.A)), uint32(m.B+r.F), uint32(m.B+r.U), now)
		atomic.AddInt64(&cr.stats.Fetches, 1)
		row := map[string]interface{}{"state": ln.S, "fetch": []int64{r.A, r.F, r.U}}
		switch cr.prop {
		case "C04":
			if d := shapeMismatch(r, o, m); d != "" {
				cr.addViol(violation{Prop: cr.prop, What: "fetch shape", Line: row, Detail: d, B: m.B, Scale: m.Scale,
					Sig: fmt.Sprintf("fetch-shape never-written=%v degenerate=%v", isNeverWritten(&ln.S, r), r.K == "ts" && len(r.Vals) == 1)})
			}
		case "C01":
			if shapeMismatch(r, o, m) == "" {
				if d := valueMismatch(r, o, m); d != "" {
					cr.addViol(violation{Prop: cr.prop, What: "fetch values", Line: row, Detail: d, B: m.B, Scale: m.Scale})
				}
			}
		case "C06":
			if shapeMismatch(r, o, m) == "" {
				if d := valueMismatch(r, o, m); d != "" {
					cr.addViol(violation{Prop: cr.prop, What: "whispertool reads a classic-format file differently from the specification", Line: row, Detail: d, B: m.B, Scale: m.Scale})
				}
			}
			if gwf != nil && r.A == 0 && r.K == "ts" && r.F < r.U && !r.Deg {
				if d := gwf.fetchMismatch(r, m); d != "" {
					cr.addViol(violation{Prop: cr.prop, What: "reference reader returns a different series", Line: row, Detail: d, B: m.B, Scale: m.Scale})
				}
			}
		}
	}
}

func isNeverWritten(s *MState, r gridRow) bool {
	if r.K != "ts" || r.Arch < 1 || int(r.Arch) > len(s.Ring) {
		return false
	}
	return s.Ring[r.Arch-1][0].T == 0
}

type writeObs struct {
	Panic string
	Err   string
	Ring  [][]RSlot
}

func toPoints(pts []MPoint, m Mapping) []wt.Point {
	out := make([]wt.Point, len(pts))
	for i, p := range pts {
		out[i] = wt.Point{Time: wt.Timestamp(m.B + p.T), Value: wt.Value(m.V(p.V))}
	}
	return out
}

func doWrite(db *wt.Whisper, op *MOp, now uint32, m Mapping) (o writeObs) {
	func() {
		defer func() {
			if r := recover(); r != nil {
				o.Panic = fmt.Sprint(r)
			}
		}()
		var err error
		switch op.Name {
		case "update":
			err = db.UpdatePointForArchive(goArchive(op.Sel), wt.Timestamp(m.B+op.P.T), wt.Value(m.V(op.P.V)), wt.Timestamp(now))
		case "many":
			err = db.UpdatePointsForArchive(toPoints(op.Pts, m), goArchive(op.Sel), wt.Timestamp(now))
		default:
			panic("unknown op " + op.Name)
		}
		if err != nil {
			o.Err = err.Error()
		}
	}()
	ring, err := project(db)
	if err == nil {
		o.Ring = ring
	}
	return o
}

func alignW(step, t int64) int64 { return t - ((t%step)+step)%step }

func (cr *coreRunner) runEdge(id int64, ln *coreLine, dir string) {
	op := ln.Op
	m := pickMapping(cr.maps, ln.S.Cfg, id)
	// which edges does this property look at?
	switch cr.prop {
	case "C01", "C02":
		if op.Sel == 0 {
			atomic.AddInt64(&cr.stats.Skipped, 1)
			return
		}
	}
	path := filepath.Join(dir, fmt.Sprintf("e%d.wsp", id))
	defer os.Remove(path)
	if err := materialise(path, &ln.S, m); err != nil {
		panic(err)
	}
	db, err := wt.Open(path, wt.WithoutFlock())
	if err != nil {
		return
	}
	defer db.Close()
	now := uint32(m.B + ln.S.Now)
	o := doWrite(db, op, now, m)
	atomic.AddInt64(&cr.stats.Edges, 1)
	want := m.RingToReal(ln.S2.Ring)
	line := map[string]interface{}{"s": ln.S, "op": op, "s2": ln.S2}
	k := len(want)
	switch cr.prop {
	case "C01":
		// logical content of the archive written by name
		a := op.Sel - 1
		if o.Panic != "" || o.Ring == nil {
			return // a panic inside a write is C02's / C15's observation
		}
		if !allYoung(op, &ln.S) {
			atomic.AddInt64(&cr.stats.Skipped, 1)
			return
		}
		atomic.AddInt64(&cr.stats.Compared, 1)
		if !sameSlots(content(o.Ring[a]), content(want[a])) {
			cr.addViol(violation{Prop: cr.prop, What: "content of the archive written by name", Line: line, B: m.B, Scale: m.Scale,
				Detail: fmt.Sprintf("archive %d holds %s, specification says %s", a, fmtSlots(content(o.Ring[a])), fmtSlots(content(want[a])))})
		}
	case "C02":
		if o.Panic != "" {
			cr.addViol(violation{Prop: cr.prop, What: "update panics", Line: line, Detail: o.Panic, B: m.B, Scale: m.Scale,
				Sig: "propagation: aggregate of an empty set of known values"})
			return
		}
		if o.Ring == nil {
			return
		}
		atomic.AddInt64(&cr.stats.Compared, 1)
		for b := op.Sel; b < k; b++ {
			if !sameSlots(content(o.Ring[b]), content(want[b])) {
				cr.addViol(violation{Prop: cr.prop, What: "coarser archive after propagation", Line: line, B: m.B, Scale: m.Scale,
					Detail: fmt.Sprintf("archive %d holds %s, specification says %s", b, fmtSlots(content(o.Ring[b])), fmtSlots(content(want[b])))})
				return
			}
		}
	case "C03":
		if o.Panic != "" || o.Ring == nil {
			return
		}
		atomic.AddInt64(&cr.stats.Compared, 1)
		if op.Name == "update" {
			accepted := o.Err == ""
			if accepted != *op.Ok {
				cr.addViol(violation{Prop: cr.prop, What: "acceptance of a single update", Line: line, B: m.B, Scale: m.Scale,
					Detail: fmt.Sprintf("accepted=%v (%s), specification says %v", accepted, o.Err, *op.Ok)})
				return
			}
		}
		// the purely direct archive: the named one, or the finest under best routing
		a := 0
		if op.Sel != 0 {
			a = op.Sel - 1
		}
		if !sameSlots(content(o.Ring[a]), content(want[a])) {
			cr.addViol(violation{Prop: cr.prop, What: "routing: content of the directly written archive", Line: line, B: m.B, Scale: m.Scale,
				Detail: fmt.Sprintf("archive %d holds %s, specification says %s", a, fmtSlots(content(o.Ring[a])), fmtSlots(content(want[a])))})
			return
		}
		// every routed point's destination slot holds what the specification says
		pts, dest := op.Pts, op.Dest
		if op.Name == "update" {
			return
		}
		for i, p := range pts {
			d := dest[i]
			if d == 0 {
				continue
			}
			I := uint32(m.B + alignW(ln.S.Cfg.Layout[d-1].Step, p.T))
			var wv, ov *RSlot
			for j := range want[d-1] {
				if want[d-1][j].T == I {
					wv = &want[d-1][j]
				}
			}
			for j := range o.Ring[d-1] {
				if o.Ring[d-1][j].T == I {
					ov = &o.Ring[d-1][j]
				}
			}
			if (wv == nil) != (ov == nil) || (wv != nil && !sameVal(wv.V, ov.V)) {
				cr.addViol(violation{Prop: cr.prop, What: "routing: destination slot of a batch point", Line: line, B: m.B, Scale: m.Scale,
					Detail: fmt.Sprintf("point %d (t=%d) routed to archive %d interval %d: observed %v, specification says %v", i, m.B+p.T, d-1, I, ov, wv)})
				return
			}
		}
	case "C06":
		// physical placement: Sync, parse the bytes independently, compare with the handle's view and
		// with the specification's physical ring
		if o.Panic != "" || o.Ring == nil {
			return
		}
		if err := db.Sync(); err != nil {
			return
		}
		buf, err := ioutil.ReadFile(path)
		if err != nil {
			panic(err)
		}
		atomic.AddInt64(&cr.stats.Compared, 1)
		h, rings, err := decodeFile(buf)
		if err != nil {
			cr.addViol(violation{Prop: cr.prop, What: "synced file is not a classic Whisper file", Line: line, Detail: err.Error(), B: m.B, Scale: m.Scale})
			return
		}
		if err := headerMatches(h, ln.S.Cfg); err != nil {
			cr.addViol(violation{Prop: cr.prop, What: "header bytes", Line: line, Detail: err.Error(), B: m.B, Scale: m.Scale})
			return
		}
		{
			// the archive written directly (by name, or the finest under best routing): every physical slot holds the
			// interval the specification puts there (an empty slot and a stored NaN are different records)
			da := 0
			if op.Sel != 0 {
				da = op.Sel - 1
			}
			for j := range want[da] {
				if j < len(rings[da]) && rings[da][j].T != want[da][j].T {
					cr.addViol(violation{Prop: cr.prop, What: "physical slot of the directly written archive", Line: line, B: m.B, Scale: m.Scale,
						Detail: fmt.Sprintf("archive %d slot %d holds interval %d, specification says %d; file %s", da, j, rings[da][j].T, want[da][j].T, fmtSlots(rings[da]))})
					return
				}
			}
		}
		for a := range rings {
			if !sameSlots(rings[a], o.Ring[a]) {
				cr.addViol(violation{Prop: cr.prop, What: "bytes on disk differ from the handle's view", Line: line, B: m.B, Scale: m.Scale,
					Detail: fmt.Sprintf("archive %d: file %s, handle %s", a, fmtSlots(rings[a]), fmtSlots(o.Ring[a]))})
				return
			}
			if d := placementMismatch(rings[a], ln.S.Cfg.Layout[a]); d != "" {
				cr.addViol(violation{Prop: cr.prop, What: "slot placement relative to the first slot's interval", Line: line, B: m.B, Scale: m.Scale,
					Detail: fmt.Sprintf("archive %d: %s in %s", a, d, fmtSlots(rings[a]))})
				return
			}
		}
	}
}

// placementMismatch: every stored interval sits at ((I - base)/step mod n) relative to the
// interval held in the first slot (C06's statement, directly).
func placementMismatch(ra []RSlot, a MArch) string {
	base := int64(ra[0].T)
	if base == 0 {
		for i, s := range ra {
			if s.T != 0 {
				return fmt.Sprintf("slot %d written while the first slot is empty", i)
			}
		}
		return ""
	}
	for i, s := range ra {
		if s.T == 0 {
			continue
		}
		if (int64(s.T)-base)%a.Step != 0 {
			return fmt.Sprintf("slot %d interval %d not aligned to base %d", i, s.T, base)
		}
		idx := (((int64(s.T)-base)/a.Step)%a.N + a.N) % a.N
		if idx != int64(i) {
			return fmt.Sprintf("interval %d sits in slot %d, classic placement is slot %d", s.T, i, idx)
		}
	}
	return ""
}

// allYoung: every point of the op is inside the named archive's retention and not in the future
func allYoung(op *MOp, s *MState) bool {
	a := s.Cfg.Layout[op.Sel-1]
	ret := a.Step * a.N
	chk := func(t int64) bool { return t <= s.Now && t > s.Now-ret+0 }
	if op.Name == "update" {
		return chk(op.P.T)
	}
	seen := map[int64]bool{}
	for _, p := range op.Pts {
		if !chk(p.T) {
			return false
		}
		I := alignW(a.Step, p.T)
		if seen[I] {
			return false // same-slot resolution is C03's
		}
		seen[I] = true
	}
	return true
}

func runCore(args []string) int {
	prop, in, out := args[0], args[1], args[2]
	cr := &coreRunner{prop: prop, gw: prop == "C06"}
	cr.maps = []Mapping{{B: 0, Scale: 1}, {B: 1600000000, Scale: 0.25}, {B: 2147480000, Scale: 1024}, {B: 2300000000, Scale: 1}, {B: 4294900000, Scale: 0.25}}
	f, err := os.Open(in)
	if err != nil {
		fmt.Fprintln(os.Stderr, err)
		return 2
	}
	defer f.Close()
	dir := scratchDir()
	defer os.RemoveAll(dir)
	type job struct {
		id   int64
		data []byte
	}
	jobs := make(chan job, 1024)
	var wg sync.WaitGroup
	var bad int64
	nw := runtime.NumCPU()
	for w := 0; w < nw; w++ {
		wg.Add(1)
		go func() {
			defer wg.Done()
			for j := range jobs {
				var s string
				data := j.data
				if len(data) > 0 && data[0] == '"' {
					if err := json.Unmarshal(data, &s); err != nil {
						atomic.AddInt64(&bad, 1)
						continue
					}
					data = []byte(s)
				}
				var ln coreLine
				if err := json.Unmarshal(data, &ln); err != nil {
					atomic.AddInt64(&bad, 1)
					continue
				}
				switch ln.Kind {
				case "state":
					if prop == "C01" || prop == "C04" || prop == "C06" {
						cr.runState(j.id, &ln, dir)
					}
				case "edge":
					if prop != "C04" {
						cr.runEdge(j.id, &ln, dir)
					}
				}
				if j.id < 3 {
					cr.mu.Lock()
					cr.sample = append(cr.sample, map[string]interface{}{"kind": ln.Kind, "s": ln.S, "op": ln.Op})
					cr.mu.Unlock()
				}
			}
		}()
	}
	sc := bufio.NewScanner(f)
	sc.Buffer(make([]byte, 1<<20), 1<<28)
	var id int64
	for sc.Scan() {
		b := sc.Bytes()
		if len(b) < 10 || !(b[0] == '"' || b[0] == '{') {
			continue
		}
		cp := make([]byte, len(b))
		copy(cp, b)
		jobs <- job{id, cp}
		id++
	}
	close(jobs)
	wg.Wait()
	res := map[string]interface{}{
		"property": prop, "lines": id, "bad_lines": bad,
		"states": cr.stats.States, "edges": cr.stats.Edges, "fetches": cr.stats.Fetches,
		"compared": cr.stats.Compared, "skipped": cr.stats.Skipped,
		"violations": append([]violation{}, cr.viols...), "samples": cr.sample,
	}
	b, _ := json.MarshalIndent(res, "", " ")
	if err := ioutil.WriteFile(out, b, 0644); err != nil {
		fmt.Fprintln(os.Stderr, err)
		return 2
	}
	if bad > 0 {
		return 2
	}
	return 0
}

var _ = math.NaN
