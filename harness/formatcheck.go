package main

import (
	"bufio"
	"encoding/binary"
	"encoding/json"
	"flag"
	"fmt"
	"io/ioutil"
	"math"
	"os"
	"path/filepath"
	"strconv"

	wt "github.com/hnakamur/whispertool"
	"github.com/hnakamur/whispertool/cmd"
)

// C07: every enumerated archive list / method / xFilesFactor class of WhisperFormat.tla is fed to the
// entry points; accept/reject must equal the specification's ValidLayout /\ ValidMethod /\ ValidXff.

type fmtCase struct {
	Kind   string  `json:"kind"`
	Layout []MArch `json:"layout"`
	M      int     `json:"m"`
	X      string  `json:"x"`
	Valid  bool    `json:"valid"`
}

func xffOfClass(c string) float32 {
	switch c {
	case "negzero":
		return float32(math.Copysign(0, -1))
	case "zero":
		return 0
	case "half":
		return 0.5
	case "one":
		return 1
	case "oneplus":
		return math.Nextafter32(1, 2)
	case "negtiny":
		return -math.SmallestNonzeroFloat32
	case "tiny":
		return math.SmallestNonzeroFloat32
	case "nan":
		return float32(math.NaN())
	case "posinf":
		return float32(math.Inf(1))
	case "neginf":
		return float32(math.Inf(-1))
	}
	panic(c)
}

func headerBytesRaw(lay []MArch, method uint32, xff float32) []byte {
	k := len(lay)
	buf := make([]byte, 16+12*k)
	var maxRet uint32
	if k > 0 {
		maxRet = uint32(uint64(lay[k-1].Step) * uint64(lay[k-1].N))
	}
	binary.BigEndian.PutUint32(buf[0:], method)
	binary.BigEndian.PutUint32(buf[4:], maxRet)
	binary.BigEndian.PutUint32(buf[8:], math.Float32bits(xff))
	binary.BigEndian.PutUint32(buf[12:], uint32(k))
	off := uint32(16 + 12*k)
	for i, a := range lay {
		binary.BigEndian.PutUint32(buf[16+12*i:], off)
		binary.BigEndian.PutUint32(buf[20+12*i:], uint32(a.Step))
		binary.BigEndian.PutUint32(buf[24+12*i:], uint32(a.N))
		off += uint32(a.N) * 12 // wraps exactly like a hostile / overflowing file would
	}
	return buf
}

func retentionString(lay []MArch) (string, bool) {
	s := ""
	for i, a := range lay {
		if i > 0 {
			s += ","
		}
		ret := a.Step * a.N
		if a.N != 0 && ret/a.N != a.Step {
			return "", false
		}
		s += strconv.FormatInt(a.Step, 10) + "s:" + strconv.FormatInt(ret, 10) + "s"
	}
	return s, true
}

type entryResult struct {
	name     string
	accepted bool
	detail   string
}

func tryEntries(lay []MArch, method int, xffClass string, dir string, id int) []entryResult {
	xff := xffOfClass(xffClass)
	var out []entryResult
	rec := func(name string, f func() error) {
		var err error
		func() {
			defer func() {
				if r := recover(); r != nil {
					err = fmt.Errorf("panic: %v", r)
				}
			}()
			err = f()
		}()
		d := ""
		if err != nil {
			d = err.Error()
		}
		out = append(out, entryResult{name, err == nil, d})
	}
	ail := make(wt.ArchiveInfoList, len(lay))
	for i, a := range lay {
		ail[i] = wt.NewArchiveInfo(wt.Duration(a.Step), uint32(a.N))
	}
	rec("NewHeader", func() error {
		_, err := wt.NewHeader(wt.AggregationMethod(method), xff, ail)
		return err
	})
	hb := headerBytesRaw(lay, uint32(method), xff)
	rec("Header.TakeFrom", func() error {
		h := &wt.Header{}
		_, err := h.TakeFrom(hb)
		return err
	})
	p := filepath.Join(dir, fmt.Sprintf("f%d.wsp", id))
	var totalPts int64
	for _, a := range lay {
		totalPts += a.N
	}
	if totalPts <= 50000000 {
		rec("Open", func() error {
			if err := ioutil.WriteFile(p, hb, 0644); err != nil {
				panic(err)
			}
			defer os.Remove(p)
			// a (sparse) file of the length the header implies
			if totalPts > 0 {
				if err := os.Truncate(p, int64(len(hb))+12*totalPts); err != nil {
					panic(err)
				}
			}
			db, err := wt.Open(p)
			if err == nil {
				db.Close()
			}
			return err
		})
	}
	var total int64
	for _, a := range lay {
		total += a.N
	}
	if total <= 100000 {
		rec("Create", func() error {
			cp := filepath.Join(dir, fmt.Sprintf("c%d.wsp", id))
			defer os.Remove(cp)
			ail2 := append(wt.ArchiveInfoList{}, ail...)
			db, err := wt.Create(cp, ail2, wt.AggregationMethod(method), xff)
			if err != nil {
				return err
			}
			if err := db.Sync(); err != nil {
				db.Close()
				return fmt.Errorf("created but Sync failed: %v", err)
			}
			db.Close()
			db2, err := wt.Open(cp)
			if err != nil {
				return fmt.Errorf("ACCEPTED-BUT-NOT-REOPENABLE: %v", err)
			}
			defer db2.Close()
			h := db2.Header()
			same := int(h.AggregationMethod()) == method && math.Float32bits(h.XFilesFactor()) == math.Float32bits(xff) && len(h.ArchiveInfoList()) == len(lay)
			if same {
				for i, a := range h.ArchiveInfoList() {
					if int64(a.SecondsPerPoint()) != lay[i].Step || int64(a.NumberOfPoints()) != lay[i].N {
						same = false
					}
				}
			}
			if !same {
				return fmt.Errorf("ACCEPTED-BUT-HEADER-DIFFERS")
			}
			st, _ := os.Stat(cp)
			if st.Size() != 16+12*int64(len(lay))+12*total {
				return fmt.Errorf("ACCEPTED-BUT-LENGTH %d", st.Size())
			}
			return nil
		})
	}
	if method == 2 && xffClass == "half" {
		if s, ok := retentionString(lay); ok {
			rec("ParseArchiveInfoList", func() error {
				l, err := wt.ParseArchiveInfoList(s)
				if err == nil && len(l) != len(lay) {
					return fmt.Errorf("parsed %d archives", len(l))
				}
				return err
			})
			rec("retentions flag", func() error {
				fs := flag.NewFlagSet("generate", flag.ContinueOnError)
				fs.SetOutput(ioutil.Discard)
				c := &cmd.GenerateCommand{}
				err := c.Parse(fs, []string{"-dest", "x.wsp", "-agg-method", "sum", "-x-files-factor", "0.5", "-retentions", s})
				if err != nil {
					return err
				}
				if c.ArchiveInfoList == nil {
					return fmt.Errorf("flag rejected")
				}
				return nil
			})
		}
	}
	return out
}

// format <export-file> <result-json>
func runFormat(args []string) int {
	f, err := os.Open(args[0])
	if err != nil {
		fmt.Fprintln(os.Stderr, err)
		return 2
	}
	defer f.Close()
	dir := scratchDir()
	defer os.RemoveAll(dir)
	var layouts []fmtCase
	methods := map[int]bool{}
	xffs := map[string]bool{}
	sc := bufio.NewScanner(f)
	sc.Buffer(make([]byte, 1<<20), 1<<26)
	for sc.Scan() {
		b := sc.Bytes()
		if len(b) < 5 || b[0] != '"' {
			continue
		}
		var s string
		if json.Unmarshal(b, &s) != nil {
			continue
		}
		var c fmtCase
		if json.Unmarshal([]byte(s), &c) != nil {
			continue
		}
		switch c.Kind {
		case "layout":
			layouts = append(layouts, c)
		case "method":
			methods[c.M] = c.Valid
		case "xff":
			xffs[c.X] = c.Valid
		}
	}
	if len(layouts) == 0 || len(methods) == 0 || len(xffs) == 0 {
		fmt.Fprintln(os.Stderr, "no cases exported")
		return 2
	}
	var viols []violation
	var samples []interface{}
	evals := 0
	check := func(lay []MArch, m int, x string, want bool, id int) {
		for _, r := range tryEntries(lay, m, x, dir, id) {
			evals++
			bad := r.accepted != want
			if r.accepted == false && want && len(r.detail) > 9 && r.detail[:9] == "ACCEPTED-" {
				bad = true
			}
			if bad && len(viols) < 60 {
				viols = append(viols, violation{Prop: "C07", What: r.name + " accept/reject",
					Detail: fmt.Sprintf("accepted=%v (%s), specification says valid=%v", r.accepted, r.detail, want),
					Line:   map[string]interface{}{"layout": lay, "method": m, "xff": x, "entry": r.name},
					Sig:    fmt.Sprintf("%s:%s", r.name, sigOfCase(lay, m, x, want))})
			}
		}
	}
	var oneValid []MArch
	for i, c := range layouts {
		check(c.Layout, 2, "half", c.Valid, i)
		if c.Valid && len(c.Layout) == 2 && oneValid == nil {
			oneValid = c.Layout
		}
		if len(samples) < 3 && i%500 == 7 {
			samples = append(samples, c)
		}
	}
	// provenance: validity depends on the (step, points) values only - not on where the ArchiveInfo values come from.
	// Lists are derived from values another entry point handed out (which carry that list's hidden offsets): the tail of
	// an accepted list, and an accepted list extended by one fresh archive.
	validOf := map[string]bool{}
	for _, c := range layouts {
		validOf[fmt.Sprint(c.Layout)] = c.Valid
	}
	donors := func(lay []MArch, id int) map[string]wt.ArchiveInfoList {
		out := map[string]wt.ArchiveInfoList{}
		fresh := make(wt.ArchiveInfoList, len(lay))
		for i, a := range lay {
			fresh[i] = wt.NewArchiveInfo(wt.Duration(a.Step), uint32(a.N))
		}
		if _, err := wt.NewHeader(wt.Sum, 0.5, fresh); err == nil {
			out["a list NewHeader accepted"] = fresh
		}
		if s, ok := retentionString(lay); ok {
			if l, err := wt.ParseArchiveInfoList(s); err == nil {
				out["a parsed retention string"] = l
			}
		}
		var total int64
		for _, a := range lay {
			total += a.N
		}
		if total <= 100000 {
			cp := filepath.Join(dir, fmt.Sprintf("donor%d.wsp", id))
			f2 := make(wt.ArchiveInfoList, len(lay))
			for i, a := range lay {
				f2[i] = wt.NewArchiveInfo(wt.Duration(a.Step), uint32(a.N))
			}
			if db, err := wt.Create(cp, f2, wt.Sum, 0.5); err == nil {
				if db.Sync() == nil {
					db.Close()
					if db2, err := wt.Open(cp); err == nil {
						out["an opened file's header"] = append(wt.ArchiveInfoList{}, db2.Header().ArchiveInfoList()...)
						db2.Close()
					}
				} else {
					db.Close()
				}
			}
			os.Remove(cp)
		}
		return out
	}
	tryDerived := func(what string, derived wt.ArchiveInfoList, lay []MArch, want bool, id int) {
		evals++
		_, err := wt.NewHeader(wt.Sum, 0.5, append(wt.ArchiveInfoList{}, derived...))
		if (err == nil) != want && len(viols) < 60 {
			viols = append(viols, violation{Prop: "C07", What: "NewHeader accept/reject depends on the provenance of the list",
				Detail: fmt.Sprintf("%s: accepted=%v (%v), specification says valid=%v", what, err == nil, err, want),
				Line:   map[string]interface{}{"layout": lay, "derived": what}})
		}
		var total int64
		for _, a := range lay {
			total += a.N
		}
		if total <= 100000 {
			evals++
			cp := filepath.Join(dir, fmt.Sprintf("derived%d.wsp", id))
			db, err := wt.Create(cp, append(wt.ArchiveInfoList{}, derived...), wt.Sum, 0.5)
			if err == nil {
				db.Close()
			}
			os.Remove(cp)
			if (err == nil) != want && len(viols) < 60 {
				viols = append(viols, violation{Prop: "C07", What: "Create accept/reject depends on the provenance of the list",
					Detail: fmt.Sprintf("%s: accepted=%v (%v), specification says valid=%v", what, err == nil, err, want),
					Line:   map[string]interface{}{"layout": lay, "derived": what}})
			}
		}
	}
	nprov := 0
	for i, c := range layouts {
		k := len(c.Layout)
		if !c.Valid || k < 2 || c.Layout[0].N > 1000000 {
			continue
		}
		if nprov >= 400 && i%7 != 0 {
			continue
		}
		nprov++
		tail := c.Layout[1:]
		if want, ok := validOf[fmt.Sprint(tail)]; ok {
			for name, d := range donors(c.Layout, i) {
				tryDerived("the tail of "+name, d[1:], tail, want, i)
			}
		}
		head := c.Layout[:k-1]
		if hv, ok := validOf[fmt.Sprint(head)]; ok && hv {
			last := c.Layout[k-1]
			for name, d := range donors(head, i) {
				ext := append(append(wt.ArchiveInfoList{}, d...), wt.NewArchiveInfo(wt.Duration(last.Step), uint32(last.N)))
				tryDerived(name+" extended by a fresh archive", ext, c.Layout, true, i)
			}
		}
	}
	id := len(layouts)
	for m, mv := range methods {
		for x, xv := range xffs {
			id++
			check(oneValid, m, x, mv && xv, id)
		}
	}
	// method names through the flag parser
	names := map[int]string{1: "average", 2: "sum", 3: "last", 4: "max", 5: "min", 6: "first", 7: "mix", 8: "percentile", 0: "", 9: "AggregationMethod(9)"}
	for m, mv := range methods {
		fs := flag.NewFlagSet("generate", flag.ContinueOnError)
		fs.SetOutput(ioutil.Discard)
		c := &cmd.GenerateCommand{}
		c.Parse(fs, []string{"-dest", "x.wsp", "-agg-method", names[m], "-x-files-factor", "0.5", "-retentions", "1s:2s"})
		acc := c.AggregationMethod != 0
		evals++
		if acc != mv {
			viols = append(viols, violation{Prop: "C07", What: "agg-method flag", Detail: fmt.Sprintf("name %q accepted=%v, specification says %v", names[m], acc, mv),
				Line: map[string]interface{}{"method": m}})
		}
	}
	for x, xv := range xffs {
		v := xffOfClass(x)
		fs := flag.NewFlagSet("generate", flag.ContinueOnError)
		fs.SetOutput(ioutil.Discard)
		c := &cmd.GenerateCommand{XFilesFactor: 0.25}
		c.Parse(fs, []string{"-dest", "x.wsp", "-agg-method", "sum", "-retentions", "1s:2s", "-x-files-factor", strconv.FormatFloat(float64(v), 'g', -1, 32)})
		acc := c.XFilesFactor != 0.25
		evals++
		if acc != xv {
			viols = append(viols, violation{Prop: "C07", What: "x-files-factor flag", Detail: fmt.Sprintf("class %s accepted=%v, specification says %v", x, acc, xv),
				Line: map[string]interface{}{"xff": x}, Sig: "xff-flag:" + x})
		}
	}
	res := map[string]interface{}{"evaluations": evals, "layouts": len(layouts), "violations": append([]violation{}, viols...), "samples": samples}
	b, _ := json.MarshalIndent(res, "", " ")
	ioutil.WriteFile(args[1], b, 0644)
	return 0
}

func sigOfCase(lay []MArch, m int, x string, want bool) string {
	if x == "nan" {
		return "xff-nan"
	}
	var total, maxn int64
	for _, a := range lay {
		total += a.N
		if a.N > maxn {
			maxn = a.N
		}
	}
	if maxn > 10000000 {
		return "32-bit-overflow"
	}
	return fmt.Sprintf("m%d-%s-%v", m, x, want)
}
