module wverif

go 1.14

require (
	github.com/go-graphite/go-whisper v0.0.0-20230221134257-6774e38a461b
	github.com/hnakamur/whispertool v0.0.0
)

replace github.com/hnakamur/whispertool => /repo
