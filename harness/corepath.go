package main

import (
	"bufio"
	"encoding/json"
	"fmt"
	"io/ioutil"
	"os"
	"path/filepath"
	"runtime"
	"sync"
	"sync/atomic"

	wt "github.com/hnakamur/whispertool"
)

// ---------------------------------------------------------------------------
// spec -> code, behaviours: TLC-simulated behaviours of WhisperCore (ExportStep lines) are replayed
// on ONE live handle per behaviour, so that state the handle carries from one call to the next
// (page cache, dirty pages, anything a changed implementation might remember) is exercised.
// After every step the property's projection of the live handle is compared with the model state.
// ---------------------------------------------------------------------------

type stepLine struct {
	Kind    string    `json:"kind"`
	Lvl     int       `json:"lvl"`
	Cfg     MCfg      `json:"cfg"`
	Now     int64     `json:"now"`
	Op      MOp       `json:"op"`
	Ring    [][]MSlot `json:"ring"`
	Durable [][]MSlot `json:"durable"`
}

type pathStats struct{ behaviours, steps, compared int64 }

func replayBehaviour(prop string, id int64, steps []stepLine, dir string, maps []Mapping, st *pathStats, addViol func(violation)) {
	if len(steps) == 0 {
		return
	}
	cfg := steps[0].Cfg
	m := pickMapping(maps, cfg, id)
	path := filepath.Join(dir, fmt.Sprintf("b%d.wsp", id))
	defer os.Remove(path)
	db, err := wt.Create(path, archiveInfoList(cfg), methodOf(cfg.Method), xffFloat(cfg.Xff))
	if err != nil {
		return
	}
	defer func() { db.Close() }()
	if err := db.Sync(); err != nil {
		return
	}
	atomic.AddInt64(&st.behaviours, 1)
	k := len(cfg.Layout)
	var lastSynced [][]RSlot
	prefix := func(i int) []interface{} {
		out := []interface{}{}
		for j := 0; j <= i; j++ {
			out = append(out, map[string]interface{}{"now": steps[j].Now, "op": steps[j].Op})
		}
		return out
	}
	for i, s := range steps {
		now := uint32(m.B + s.Now)
		var o writeObs
		switch s.Op.Name {
		case "tick":
			continue
		case "update", "many":
			op := s.Op
			o = doWrite(db, &op, now, m)
		case "sync":
			if err := db.Sync(); err != nil {
				return
			}
			o.Ring, _ = project(db)
		case "abandon":
			db.Close()
			db, err = wt.Open(path, wt.WithoutFlock())
			if err != nil {
				addViol(violation{Prop: prop, What: "reopen after abandonment fails", Detail: err.Error(), Line: map[string]interface{}{"cfg": cfg, "behaviour": prefix(i)}, B: m.B, Scale: m.Scale})
				return
			}
			o.Ring, _ = project(db)
		default:
			continue
		}
		atomic.AddInt64(&st.steps, 1)
		if o.Panic != "" {
			if prop == "C02" {
				addViol(violation{Prop: prop, What: "update panics", Detail: o.Panic, Line: map[string]interface{}{"cfg": cfg, "behaviour": prefix(i)}, B: m.B, Scale: m.Scale})
			}
			return
		}
		if o.Ring == nil {
			return
		}
		want := m.RingToRealPlain(s.Ring)
		line := map[string]interface{}{"cfg": cfg, "behaviour": prefix(i)}
		isWrite := s.Op.Name == "update" || s.Op.Name == "many"
		diverged := false
		switch prop {
		case "C01":
			if isWrite && s.Op.Sel != 0 && allYoungAt(&s.Op, cfg, s.Now) {
				a := s.Op.Sel - 1
				atomic.AddInt64(&st.compared, 1)
				if !sameSlots(content(o.Ring[a]), content(want[a])) {
					addViol(violation{Prop: prop, What: "content of the archive written by name (live handle, after a sequence of calls)", Line: line, B: m.B, Scale: m.Scale,
						Detail: fmt.Sprintf("archive %d holds %s, specification says %s", a, fmtSlots(content(o.Ring[a])), fmtSlots(content(want[a])))})
					return
				}
			}
			// archives that are not the target of this call keep their content unless propagation reaches them
			if isWrite && s.Op.Sel != 0 {
				for b := 0; b < s.Op.Sel-1; b++ {
					if !sameSlots(content(o.Ring[b]), content(want[b])) {
						addViol(violation{Prop: prop, What: "a finer archive changed by a write to a coarser one", Line: line, B: m.B, Scale: m.Scale,
							Detail: fmt.Sprintf("archive %d holds %s, specification says %s", b, fmtSlots(content(o.Ring[b])), fmtSlots(content(want[b])))})
						return
					}
				}
			}
		case "C02":
			if isWrite && s.Op.Sel != 0 {
				atomic.AddInt64(&st.compared, 1)
				for b := s.Op.Sel; b < k; b++ {
					if !sameSlots(content(o.Ring[b]), content(want[b])) {
						addViol(violation{Prop: prop, What: "coarser archive after propagation (live handle)", Line: line, B: m.B, Scale: m.Scale,
							Detail: fmt.Sprintf("archive %d holds %s, specification says %s", b, fmtSlots(content(o.Ring[b])), fmtSlots(content(want[b])))})
						return
					}
				}
			}
		case "C03":
			if isWrite {
				atomic.AddInt64(&st.compared, 1)
				if s.Op.Name == "update" && s.Op.Ok != nil && (o.Err == "") != *s.Op.Ok {
					addViol(violation{Prop: prop, What: "acceptance of a single update (live handle)", Line: line, B: m.B, Scale: m.Scale,
						Detail: fmt.Sprintf("accepted=%v (%s), specification says %v", o.Err == "", o.Err, *s.Op.Ok)})
					return
				}
				a := 0
				if s.Op.Sel != 0 {
					a = s.Op.Sel - 1
				}
				if !sameSlots(content(o.Ring[a]), content(want[a])) {
					addViol(violation{Prop: prop, What: "routing: content of the directly written archive (live handle)", Line: line, B: m.B, Scale: m.Scale,
						Detail: fmt.Sprintf("archive %d holds %s, specification says %s", a, fmtSlots(content(o.Ring[a])), fmtSlots(content(want[a])))})
					return
				}
			}
		case "C05":
			buf, err := ioutil.ReadFile(path)
			if err != nil {
				return
			}
			_, rings, err := decodeFile(buf)
			atomic.AddInt64(&st.compared, 1)
			if err != nil {
				addViol(violation{Prop: prop, What: "file is not a classic Whisper file of the created length any more", Detail: err.Error(), Line: line, B: m.B, Scale: m.Scale})
				return
			}
			if s.Op.Name == "sync" {
				lastSynced = o.Ring
			}
			if lastSynced != nil {
				for a := range rings {
					if !sameSlots(rings[a], lastSynced[a]) {
						addViol(violation{Prop: prop, What: "bytes on disk differ from the handle's state at its last Sync", Line: line, B: m.B, Scale: m.Scale,
							Detail: fmt.Sprintf("after %s: archive %d on disk %s, at last Sync %s", s.Op.Name, a, fmtSlots(rings[a]), fmtSlots(lastSynced[a]))})
						return
					}
				}
			}
			if s.Op.Name == "abandon" && lastSynced != nil {
				for a := range o.Ring {
					if !sameSlots(o.Ring[a], lastSynced[a]) {
						addViol(violation{Prop: prop, What: "state after abandonment and reopen is not the last synced state", Line: line, B: m.B, Scale: m.Scale,
							Detail: fmt.Sprintf("archive %d reopened %s, last synced %s", a, fmtSlots(o.Ring[a]), fmtSlots(lastSynced[a]))})
						return
					}
				}
			}
		case "C06":
			if isWrite {
				a := 0
				if s.Op.Sel != 0 {
					a = s.Op.Sel - 1
				}
				atomic.AddInt64(&st.compared, 1)
				for j := range want[a] {
					if o.Ring[a][j].T != want[a][j].T {
						addViol(violation{Prop: prop, What: "physical slot of the directly written archive (live handle)", Line: line, B: m.B, Scale: m.Scale,
							Detail: fmt.Sprintf("archive %d slot %d holds interval %d, specification says %d", a, j, o.Ring[a][j].T, want[a][j].T)})
						return
					}
				}
				for b := range o.Ring {
					if d := placementMismatch(o.Ring[b], cfg.Layout[b]); d != "" {
						addViol(violation{Prop: prop, What: "slot placement relative to the first slot's interval (live handle)", Line: line, B: m.B, Scale: m.Scale,
							Detail: fmt.Sprintf("archive %d: %s", b, d)})
						return
					}
				}
			}
		}
		// the behaviour continues on the REAL handle; if the real state has left the model's path in a part this
		// property does not look at, later comparisons would be another property's finding: stop this behaviour
		for a := range want {
			if !sameSlots(content(o.Ring[a]), content(want[a])) {
				diverged = true
			}
		}
		if diverged && prop != "C05" {
			return
		}
	}
}

// plain mapping (no bit-pattern variation: the live handle writes the values itself)
func (m Mapping) RingToRealPlain(ring [][]MSlot) [][]RSlot {
	out := make([][]RSlot, len(ring))
	for a, ra := range ring {
		out[a] = make([]RSlot, len(ra))
		for i, s := range ra {
			out[a][i] = RSlot{T: m.T(s.T), V: m.V(s.V)}
		}
	}
	return out
}

func allYoungAt(op *MOp, cfg MCfg, now int64) bool {
	s := &MState{Cfg: cfg, Now: now}
	return allYoung(op, s)
}

// core-path <prop> <export-file> <result-json>
func runCorePath(args []string) int {
	prop, in, out := args[0], args[1], args[2]
	f, err := os.Open(in)
	if err != nil {
		fmt.Fprintln(os.Stderr, err)
		return 2
	}
	defer f.Close()
	dir := scratchDir()
	defer os.RemoveAll(dir)
	maps := []Mapping{{B: 0, Scale: 1}, {B: 1600000000, Scale: 0.25}, {B: 2147480000, Scale: 1024}, {B: 2300000000, Scale: 1}, {B: 4294900000, Scale: 0.25}}
	var mu sync.Mutex
	var viols []violation
	addViol := func(v violation) {
		mu.Lock()
		if len(viols) < 40 {
			viols = append(viols, v)
		}
		mu.Unlock()
	}
	var st pathStats
	type job struct {
		id    int64
		steps []stepLine
	}
	jobs := make(chan job, 256)
	var wg sync.WaitGroup
	for w := 0; w < runtime.NumCPU(); w++ {
		wg.Add(1)
		go func() {
			defer wg.Done()
			for j := range jobs {
				replayBehaviour(prop, j.id, j.steps, dir, maps, &st, addViol)
			}
		}()
	}
	sc := bufio.NewScanner(f)
	sc.Buffer(make([]byte, 1<<20), 1<<28)
	var cur []stepLine
	var id, bad int64
	var sample []interface{}
	flush := func() {
		if len(cur) > 0 {
			if len(sample) < 2 && len(cur) > 3 {
				ops := []interface{}{}
				for _, s := range cur {
					ops = append(ops, s.Op)
				}
				sample = append(sample, map[string]interface{}{"cfg": cur[0].Cfg, "ops": ops})
			}
			jobs <- job{id, cur}
			id++
			cur = nil
		}
	}
	for sc.Scan() {
		b := sc.Bytes()
		if len(b) < 10 || !(b[0] == '"' || b[0] == '{') {
			continue
		}
		data := append([]byte{}, b...)
		if data[0] == '"' {
			var s string
			if json.Unmarshal(data, &s) != nil {
				bad++
				continue
			}
			data = []byte(s)
		}
		var ln stepLine
		if json.Unmarshal(data, &ln) != nil || ln.Kind != "step" {
			continue
		}
		if ln.Lvl <= 1 {
			flush()
		}
		cur = append(cur, ln)
	}
	flush()
	close(jobs)
	wg.Wait()
	res := map[string]interface{}{"property": prop, "behaviours": st.behaviours, "steps": st.steps, "compared": st.compared, "bad_lines": bad,
		"violations": append([]violation{}, viols...), "samples": sample}
	bts, _ := json.MarshalIndent(res, "", " ")
	ioutil.WriteFile(out, bts, 0644)
	if bad > 0 {
		return 2
	}
	return 0
}
