package main

import (
	"bytes"
	"fmt"
	"io/ioutil"
	"net"
	"os"
	"os/exec"
	"path/filepath"
	"strconv"
	"strings"
	"time"

	wt "github.com/hnakamur/whispertool"
	"github.com/hnakamur/whispertool/cmd"
)

// C12: every read is executed twice - against the directory and against a real
// "whispertool server" (child process, loopback HTTP) serving that directory.

type serverProc struct {
	cmd  *exec.Cmd
	url  string
	logb *bytes.Buffer
	done chan struct{} // closed when the child has exited
}

func runServe(args []string) int {
	c := &cmd.ServerCommand{Addr: args[0], BaseDir: args[1]}
	fmt.Fprintln(os.Stderr, c.Execute())
	return 1
}

func startServer(base string) (*serverProc, error) {
	self, err := os.Executable()
	if err != nil {
		return nil, err
	}
	for attempt := 0; attempt < 5; attempt++ {
		l, err := net.Listen("tcp", "127.0.0.1:0")
		if err != nil {
			return nil, err
		}
		addr := l.Addr().String()
		l.Close()
		c := exec.Command(self, "serve", addr, base)
		lb := &bytes.Buffer{}
		c.Stderr = lb
		c.Stdout = lb
		if err := c.Start(); err != nil {
			return nil, err
		}
		done := make(chan struct{})
		go func() { c.Wait(); close(done) }()
		ok := false
		for i := 0; i < 200; i++ {
			conn, err := net.DialTimeout("tcp", addr, 100*time.Millisecond)
			if err == nil {
				conn.Close()
				ok = true
				break
			}
			time.Sleep(10 * time.Millisecond)
		}
		if ok {
			// The port was chosen by listening and closing: another harness process may have taken it in between, in which
			// case the connection above reached ITS server (same relative file names, other contents) and our child has
			// already exited with "address already in use". Only a child that is still running is our server.
			select {
			case <-done:
				continue
			case <-time.After(300 * time.Millisecond):
				return &serverProc{cmd: c, url: "http://" + addr, logb: lb, done: done}, nil
			}
		}
		c.Process.Kill()
		<-done
	}
	return nil, fmt.Errorf("server did not come up")
}

func (s *serverProc) stop() {
	if s != nil && s.cmd != nil && s.cmd.Process != nil {
		s.cmd.Process.Kill()
		if s.done != nil {
			<-s.done
		}
	}
}

func (s *serverProc) alive() bool {
	if s == nil {
		return false
	}
	if s.done != nil {
		select {
		case <-s.done:
			return false // our child is gone: whoever answers on that port is not our server
		default:
		}
	}
	conn, err := net.DialTimeout("tcp", strings.TrimPrefix(s.url, "http://"), 200*time.Millisecond)
	if err != nil {
		return false
	}
	conn.Close()
	return true
}

type readObs struct {
	Class string
	Msg   string
	Recs  []rec
	Hdr   string
	Dest  []byte
	Perr  string
}

func sameObs(a, b readObs) string {
	if a.Perr != "" || b.Perr != "" {
		if a.Perr != b.Perr {
			return fmt.Sprintf("output unparsable: local %q, remote %q", a.Perr, b.Perr)
		}
	}
	if a.Class != b.Class {
		return fmt.Sprintf("directory: %s (%s); URL: %s (%s)", a.Class, a.Msg, b.Class, b.Msg)
	}
	if d := sameRecs(b.Recs, a.Recs); d != "" {
		return "records via URL differ from the directory: " + d
	}
	if a.Hdr != b.Hdr {
		return fmt.Sprintf("header lines differ: directory %q, URL %q", a.Hdr, b.Hdr)
	}
	if !bytes.Equal(a.Dest, b.Dest) {
		return "destination bytes differ between directory and URL source"
	}
	return ""
}

func headerLines(text string) string {
	var out []string
	for _, l := range strings.Split(text, "\n") {
		if strings.HasPrefix(l, "aggMethod:") || strings.HasPrefix(l, "archiveInfo:") {
			out = append(out, l)
		}
	}
	return strings.Join(out, "|")
}

// runBoth executes mk(base) once with the directory and once with the URL as base.
func (cr *cliRunner) runBoth(e *cliEnv, srv *serverProc, reset func(), name string, mk func(base string) (cmd.Command, *string), destPath string) (readObs, readObs) {
	one := func(base string) readObs {
		reset()
		c, tout := mk(base)
		res := e.runCmd(c, tout)
		o := readObs{Class: res.Class, Msg: res.Msg, Hdr: headerLines(res.Text)}
		recs, _, err := parsePointLines(res.Text, e.mp)
		if err != nil {
			o.Perr = err.Error()
		}
		o.Recs = recs
		if destPath != "" {
			o.Dest, _ = ioutil.ReadFile(destPath)
		}
		return o
	}
	return one(e.root), one(srv.url)
}

func (cr *cliRunner) runTreeRemote(id int64, tl *treeLine, root string, maps []Mapping, srv *serverProc) {
	mp := pickMapping(maps, tl.Ccfg, id)
	if !tl.S2.Absent {
		mp.B -= mp.B % lcmAll(tl.S2.Cfg.Layout)
	}
	if !tl.D.Absent {
		mp.B -= mp.B % lcmAll(tl.D.Cfg.Layout)
	}
	e := &cliEnv{root: root, srcBase: filepath.Join(root, "src"), destBase: filepath.Join(root, "dst"), mp: mp, now: tl.Now}
	cmd.VerifNow = func() wt.Timestamp { return wt.Timestamp(mp.B + tl.Now) }
	defer func() { cmd.VerifNow = nil }()
	reset := func() {
		os.RemoveAll(e.srcBase)
		os.RemoveAll(e.destBase)
		e.put("s1", &tl.S1)
		e.put("s2", &tl.S2)
		e.put("d", &tl.D)
	}
	for ri := range tl.Rows {
		row := &tl.Rows[ri]
		from, until := e.realT(row.F), e.realT(row.U)
		arch := cmdArchive(row.Sel)
		chk := func(name string, l, r readObs) {
			cr.stats[name] += 2
			if l.Class == "panic" || r.Class == "panic" {
				if r.Class == "panic" && l.Class != "panic" {
					cr.viol(name+" via URL panics", r.Msg, tl, row, mp, "")
				}
				return
			}
			if d := sameObs(l, r); d != "" {
				cr.viol(name+": URL and directory disagree", d, tl, row, mp, remoteSig(name, l, r))
			}
		}
		cr.note(ri, "view")
		l, r := cr.runBoth(e, srv, reset, "view", func(base string) (cmd.Command, *string) {
			c := &cmd.ViewCommand{SrcBase: base, SrcRelPath: "src/item1/s1.wsp", From: from, Until: until, ArchiveID: arch, ShowHeader: true}
			return c, &c.TextOut
		}, "")
		chk("view", l, r)
		cr.note(ri, "view-raw")
		l, r = cr.runBoth(e, srv, reset, "view-raw", func(base string) (cmd.Command, *string) {
			c := &cmd.ViewRawCommand{SrcBase: base, SrcRelPath: "src/item1/s1.wsp", From: from, Until: until, ArchiveID: arch, ShowHeader: true, SortsByTime: ri%2 == 0}
			return c, &c.TextOut
		}, "")
		chk("view-raw", l, r)
		cr.note(ri, "sum")
		l, r = cr.runBoth(e, srv, reset, "sum", func(base string) (cmd.Command, *string) {
			c := &cmd.SumCommand{SrcBase: base, ItemPattern: "src/item*", SrcPattern: "s*.wsp", From: from, Until: until, ArchiveID: arch, ShowHeader: true}
			return c, &c.TextOut
		}, "")
		chk("sum", l, r)
		cr.note(ri, "diff")
		l, r = cr.runBoth(e, srv, reset, "diff", func(base string) (cmd.Command, *string) {
			c := &cmd.DiffCommand{SrcBase: base, SrcRelPath: "src/item1/s1.wsp", DestBase: e.root, DestRelPath: "dst/item1/d.wsp", From: from, Until: until, ArchiveID: arch}
			return c, &c.TextOut
		}, "")
		if row.Diff.K != "err-or-diff" { // both sides fail differently: either error may win
			chk("diff (source side)", l, r)
		}
		cr.note(ri, "diff-dest")
		l, r = cr.runBoth(e, srv, reset, "diff", func(base string) (cmd.Command, *string) {
			c := &cmd.DiffCommand{SrcBase: e.root, SrcRelPath: "src/item1/s1.wsp", DestBase: base, DestRelPath: "dst/item1/d.wsp", From: from, Until: until, ArchiveID: arch}
			return c, &c.TextOut
		}, "")
		if row.Diff.K != "err-or-diff" {
			chk("diff (destination side)", l, r)
		}
		cr.note(ri, "diff-both")
		l, r = cr.runBoth(e, srv, reset, "diff", func(base string) (cmd.Command, *string) {
			c := &cmd.DiffCommand{SrcBase: base, SrcRelPath: "src/item1/s1.wsp", DestBase: base, DestRelPath: "dst/item1/d.wsp", From: from, Until: until, ArchiveID: arch}
			return c, &c.TextOut
		}, "")
		if row.Diff.K != "err-or-diff" {
			chk("diff (both sides)", l, r)
		}
		cr.note(ri, "copy")
		l, r = cr.runBoth(e, srv, reset, "copy", func(base string) (cmd.Command, *string) {
			c := &cmd.CopyCommand{SrcBase: base, SrcRelPath: "src/item1/s1.wsp", DestBase: e.root, DestRelPath: "dst/item1/d.wsp",
				AggregationMethod: methodOf(tl.Ccfg.Method), XFilesFactor: xffFloat(tl.Ccfg.Xff), ArchiveInfoList: archiveInfoList(tl.Ccfg),
				From: from, Until: until, ArchiveID: arch, CopyNaN: row.Cn}
			return c, &c.TextOut
		}, e.path("d"))
		chk("copy", l, r)
		cr.note(ri, "copy-glob")
		{
			// file globbing through /files: every matched source is copied to the same relative path
			gdst := filepath.Join(e.root, "dstg")
			treeBytes := func() []byte {
				var all []byte
				filepath.Walk(gdst, func(p string, info os.FileInfo, err error) error {
					if err == nil && !info.IsDir() {
						rel, _ := filepath.Rel(gdst, p)
						b, _ := ioutil.ReadFile(p)
						all = append(all, []byte(rel+"\x00")...)
						all = append(all, b...)
					}
					return nil
				})
				return all
			}
			one := func(base string) readObs {
				reset()
				os.RemoveAll(gdst)
				c := &cmd.CopyCommand{SrcBase: base, SrcRelPath: "src/item*/s*.wsp", DestBase: gdst,
					AggregationMethod: methodOf(tl.Ccfg.Method), XFilesFactor: xffFloat(tl.Ccfg.Xff), ArchiveInfoList: archiveInfoList(tl.Ccfg),
					From: from, Until: until, ArchiveID: arch, CopyNaN: row.Cn}
				res := e.runCmd(c, &c.TextOut)
				return readObs{Class: res.Class, Msg: res.Msg, Dest: treeBytes()}
			}
			l, r := one(e.root), one(srv.url)
			os.RemoveAll(gdst)
			if tl.S2.Absent || sameLayout(tl.S1.Cfg, tl.S2.Cfg) || l.Class == r.Class {
				chk("copy (glob)", l, r)
			}
		}
		cr.note(ri, "sum-diff")
		l, r = cr.runBoth(e, srv, reset, "sum-diff", func(base string) (cmd.Command, *string) {
			c := &cmd.SumDiffCommand{SrcBase: base, ItemPattern: "src/item*", SrcPattern: "s*.wsp", DestBase: e.destBase, DestRelPath: "d.wsp", From: from, Until: until, ArchiveID: arch}
			return c, &c.TextOut
		}, "")
		_ = l
		_ = r
		// (sum-diff maps the item "src.item1" to the destination directory "src/item1": not comparable here)
	}
	// file names that need escaping in a query string
	if !tl.S1.Absent {
		for _, name := range []string{"c++.wsp", "a&b=c.wsp", "sp ace%41#?.wsp", "pl+us dir/x+y.wsp"} {
			name := name
			rel := filepath.Join("src", "item1", name)
			odd := func() {
				reset()
				os.MkdirAll(filepath.Dir(filepath.Join(e.root, rel)), 0755)
				b, _ := ioutil.ReadFile(e.path("s1"))
				ioutil.WriteFile(filepath.Join(e.root, rel), b, 0644)
			}
			row0 := &cmdRow{}
			for _, what := range []string{"view", "view-raw", "diff"} {
				what := what
				cr.note(0, "oddname")
				l, r := cr.runBoth(e, srv, odd, what, func(base string) (cmd.Command, *string) {
					switch what {
					case "view":
						c := &cmd.ViewCommand{SrcBase: base, SrcRelPath: rel, ArchiveID: cmd.ArchiveIDAll, ShowHeader: true}
						return c, &c.TextOut
					case "view-raw":
						c := &cmd.ViewRawCommand{SrcBase: base, SrcRelPath: rel, ArchiveID: cmd.ArchiveIDAll, ShowHeader: true}
						return c, &c.TextOut
					}
					c := &cmd.DiffCommand{SrcBase: base, SrcRelPath: rel, DestBase: e.root, DestRelPath: "src/item1/s1.wsp", ArchiveID: cmd.ArchiveIDAll}
					return c, &c.TextOut
				}, "")
				cr.stats["oddname"] += 2
				if d := sameObs(l, r); d != "" {
					cr.viol(what+" of a file named "+strconv.Quote(name)+": URL and directory disagree", d, tl, row0, mp, "")
				}
			}
		}
	}
	// files, patterns and items that do not exist / are malformed
	row := &cmdRow{}
	copyRun := 0
	defer func() {
		for i := 1; i <= copyRun; i++ {
			os.RemoveAll(filepath.Join(e.root, fmt.Sprintf("dst2-%d", i)))
		}
	}()
	for _, pc := range []struct{ name, file, item, pat string }{
		{"missing file", "src/item1/nope.wsp", "src/item1", "s*.wsp"},
		{"missing directory", "src/nodir/s1.wsp", "src/nodir", "s*.wsp"},
		{"file pattern without match", "src/item1/zz*.wsp", "src/item1", "zz*.wsp"},
		{"item pattern without match", "src/zz*/s1.wsp", "src/zz*", "s*.wsp"},
		{"malformed pattern", "src/item1/[.wsp", "src/[", "s*.wsp"},
		{"malformed file pattern", "src/item1/[.wsp", "src/item1", "["},
	} {
		pc := pc
		tag := " (" + pc.name + ")"
		chk := func(name string, l, r readObs) {
			cr.stats["notexist"] += 2
			if r.Class == "panic" && l.Class != "panic" {
				cr.viol(name+tag+" via URL panics", r.Msg, tl, row, mp, "")
				return
			}
			if l.Class != r.Class {
				cr.viol(name+tag+": URL and directory classify differently", fmt.Sprintf("directory: %s (%s); URL: %s (%s)", l.Class, l.Msg, r.Class, r.Msg), tl, row, mp,
					"remote-class:"+name+":"+pc.name+":"+l.Class+"->"+r.Class)
			}
		}
		cr.note(0, "notexist")
		if !strings.Contains(pc.name, "item") && pc.name != "malformed file pattern" {
			l, r := cr.runBoth(e, srv, reset, "view", func(base string) (cmd.Command, *string) {
				c := &cmd.ViewCommand{SrcBase: base, SrcRelPath: pc.file, ArchiveID: cmd.ArchiveIDAll, ShowHeader: true}
				return c, &c.TextOut
			}, "")
			chk("view", l, r)
			l, r = cr.runBoth(e, srv, reset, "view-raw", func(base string) (cmd.Command, *string) {
				c := &cmd.ViewRawCommand{SrcBase: base, SrcRelPath: pc.file, ArchiveID: cmd.ArchiveIDAll, ShowHeader: true}
				return c, &c.TextOut
			}, "")
			chk("view-raw", l, r)
			l, r = cr.runBoth(e, srv, reset, "diff", func(base string) (cmd.Command, *string) {
				c := &cmd.DiffCommand{SrcBase: base, SrcRelPath: pc.file, DestBase: e.root, ArchiveID: cmd.ArchiveIDAll}
				return c, &c.TextOut
			}, "")
			chk("diff", l, r)
			l, r = cr.runBoth(e, srv, reset, "copy", func(base string) (cmd.Command, *string) {
				// (a failing copy leaves its destination handle open and locked until it is finalized,
				// so each run gets a destination of its own)
				copyRun++
				c := &cmd.CopyCommand{SrcBase: base, SrcRelPath: pc.file, DestBase: filepath.Join(e.root, fmt.Sprintf("dst2-%d", copyRun)),
					AggregationMethod: methodOf(tl.Ccfg.Method), XFilesFactor: xffFloat(tl.Ccfg.Xff), ArchiveInfoList: archiveInfoList(tl.Ccfg), ArchiveID: cmd.ArchiveIDAll}
				return c, &c.TextOut
			}, "")
			chk("copy", l, r)
		}
		l, r := cr.runBoth(e, srv, reset, "sum", func(base string) (cmd.Command, *string) {
			c := &cmd.SumCommand{SrcBase: base, ItemPattern: pc.item, SrcPattern: pc.pat, ArchiveID: cmd.ArchiveIDAll, ShowHeader: true}
			return c, &c.TextOut
		}, "")
		chk("sum", l, r)
		l, r = cr.runBoth(e, srv, reset, "sum-diff", func(base string) (cmd.Command, *string) {
			c := &cmd.SumDiffCommand{SrcBase: base, ItemPattern: pc.item, SrcPattern: pc.pat, DestBase: e.root, DestRelPath: "../../dst/item1/d.wsp", ArchiveID: cmd.ArchiveIDAll}
			return c, &c.TextOut
		}, "")
		if !tl.D.Absent || strings.Contains(pc.name, "item") {
			// (with a missing destination both sides fail concurrently and either error may win)
			chk("sum-diff", l, r)
		}
	}
}

func remoteSig(name string, l, r readObs) string {
	if l.Class != r.Class {
		return "remote-class:" + name + ":" + l.Class + "->" + r.Class
	}
	return ""
}

func sameLayout(a, b MCfg) bool {
	if len(a.Layout) != len(b.Layout) {
		return false
	}
	for i := range a.Layout {
		if a.Layout[i] != b.Layout[i] {
			return false
		}
	}
	return true
}
