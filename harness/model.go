package main

import (
	"encoding/json"
	"fmt"
	"math"
	"sort"
)

// Abstract (model) state as exported by the TLA+ specification (WhisperCore!StateRec).

type MSlot struct {
	T int64   `json:"t"`
	V []int64 `json:"v"` // [] = NaN, [x] = number x
}

type MArch struct {
	Step int64 `json:"step"`
	N    int64 `json:"n"`
}

type MCfg struct {
	Layout []MArch  `json:"layout"`
	Method string   `json:"method"`
	Xff    [2]int64 `json:"xff"`
}

type MState struct {
	Cfg  MCfg      `json:"cfg"`
	Now  int64     `json:"now"`
	Ring [][]MSlot `json:"ring"`
}

type MPoint struct {
	T int64   `json:"t"`
	V []int64 `json:"v"`
}

type MOp struct {
	Name string   `json:"name"`
	Sel  int      `json:"sel"`
	P    *MPoint  `json:"p,omitempty"`
	Pts  []MPoint `json:"pts,omitempty"`
	Ok   *bool    `json:"ok,omitempty"`
	Dest []int    `json:"dest,omitempty"`
	D    int64    `json:"d,omitempty"`
}

// Mapping of model time / values to real time / values.
//   real time  = B + t   (B a multiple of every step of the layout)
//   real value = x * Scale (Scale a power of two: commutes with IEEE arithmetic)
type Mapping struct {
	B     int64
	Scale float64
	// Off: real value = Off + x * Scale. With Off = 1 and Scale = 2^-52 neighbouring model values are neighbouring
	// float64 numbers (they differ in the last bit and need 17 significant digits); only for histories without value
	// arithmetic (methods last/max/min/first; copy, diff, view), where equality, order and differences are preserved exactly.
	Off float64
}

func (m Mapping) T(t int64) uint32 {
	if t == 0 {
		return 0
	}
	return uint32(m.B + t)
}

func (m Mapping) V(v []int64) float64 {
	if len(v) == 0 {
		return math.NaN()
	}
	return m.Off + float64(v[0])*m.Scale
}

// a difference of two real values (diff's dest-src column) in model units
func (m Mapping) modelDelta(v float64) []int64 {
	if math.IsNaN(v) {
		return []int64{}
	}
	x := v / m.Scale
	if x != math.Trunc(x) || math.Abs(x) > 2e9 {
		unrepSeen = true
		return []int64{unrepresentable}
	}
	return []int64{int64(x)}
}

// Real (observed) slot.
type RSlot struct {
	T uint32
	V float64
}

func sameVal(a, b float64) bool {
	if math.IsNaN(a) || math.IsNaN(b) {
		return math.IsNaN(a) && math.IsNaN(b)
	}
	return a == b
}

func (m Mapping) RingToReal(ring [][]MSlot) [][]RSlot {
	out := make([][]RSlot, len(ring))
	for a, ra := range ring {
		out[a] = make([]RSlot, len(ra))
		for i, s := range ra {
			v := m.V(s.V)
			if s.T != 0 {
				// instantiate the model's value tokens with different bit patterns of the same value:
				// NaN with another payload than Go's canonical one, and negative zero
				if math.IsNaN(v) && (a+i)%2 == 0 {
					v = math.Float64frombits(0x7FF8000000000000)
				} else if v == 0 && (a+i)%2 == 1 {
					v = math.Copysign(0, -1)
				}
			}
			out[a][i] = RSlot{T: m.T(s.T), V: v}
		}
	}
	return out
}

// logical content of a ring: the set of (interval,value) pairs it stores, sorted
func content(ra []RSlot) []RSlot {
	var c []RSlot
	for _, s := range ra {
		if s.T != 0 {
			c = append(c, s)
		}
	}
	sort.Slice(c, func(i, j int) bool {
		if c[i].T != c[j].T {
			return c[i].T < c[j].T
		}
		return math.Float64bits(c[i].V) < math.Float64bits(c[j].V)
	})
	return c
}

func sameSlots(a, b []RSlot) bool {
	if len(a) != len(b) {
		return false
	}
	for i := range a {
		if a[i].T != b[i].T || !sameVal(a[i].V, b[i].V) {
			return false
		}
	}
	return true
}

func fmtSlots(a []RSlot) string {
	s := "["
	for i, x := range a {
		if i > 0 {
			s += " "
		}
		s += fmt.Sprintf("(%d,%v)", x.T, x.V)
	}
	return s + "]"
}

func lcmAll(l []MArch) int64 {
	r := int64(1)
	for _, a := range l {
		r = r / gcd(r, a.Step) * a.Step
	}
	return r
}

func gcd(a, b int64) int64 {
	for b != 0 {
		a, b = b, a%b
	}
	return a
}

func mustJSON(v interface{}) string {
	b, err := json.Marshal(v)
	if err != nil {
		return fmt.Sprintf("%v", v)
	}
	return string(b)
}
