package main

import (
	"sync"
	"bufio"
	"encoding/json"
	"fmt"
	"io/ioutil"
	"math"
	"math/rand"
	"os"
	"path/filepath"
	"sort"

	wt "github.com/hnakamur/whispertool"
	"github.com/hnakamur/whispertool/cmd"
)

// ---------------------------------------------------------------------------
// code -> spec for the commands: random trees built with the library on large
// layouts; every command execution is one ndjson line for spec/Trace_CLI.tla.
// ---------------------------------------------------------------------------

var cliLayouts = [][]MArch{
	{{1, 400}, {20, 400}},            // both archives span pages
	{{1, 8}, {4, 8}, {16, 8}},        // the repository's test layout
	{{10, 3}, {30, 3}},               //
	{{1, 60}, {60, 60}},              //
	{{1, 4}, {2, 4}, {4, 4}, {8, 4}}, // 4 levels
	{{2, 700}},                       // single multi-page archive
	{{1, 2}, {2, 2}},
}

type cliDriver struct {
	srv  *serverProc
	prop string
	w    *bufio.Writer
	root string
	n    int
}

type sfile struct {
	Absent bool            `json:"absent,omitempty"`
	Cfg    *MCfg           `json:"cfg,omitempty"`
	Sp     [][][]interface{} `json:"sp,omitempty"`
}

func (d *cliDriver) emit(ev map[string]interface{}) {
	b, err := json.Marshal(ev)
	if err != nil {
		panic(err)
	}
	d.w.Write(b)
	d.w.WriteByte('\n')
	d.n++
}

// a pre-state that holds a value the model cannot represent makes the whole case unjudgeable
// (it can only come from a changed library: the case is then another property's business)
var preStateUnrep bool

func snapshot(path string, cfg MCfg, mp Mapping) sfile {
	saved := unrepSeen
	unrepSeen = false
	defer func() {
		if unrepSeen {
			preStateUnrep = true
		}
		unrepSeen = saved
	}()
	buf, err := ioutil.ReadFile(path)
	if err != nil {
		return sfile{Absent: true}
	}
	_, rings, err := decodeFile(buf)
	if err != nil {
		panic(err)
	}
	c := cfg
	return sfile{Cfg: &c, Sp: mp.sparseOf(rings)}
}

// the text a command printed, as records; text that cannot be read as records (e.g. cut off in the middle of a line) is an
// observation the specification rejects (field parse_error of the next emitted line), not a failure of the driver
var outParseErr string

func parseOut(text string, mp Mapping) []rec {
	got, _, err := parsePointLines(text, mp)
	if err != nil {
		outParseErr = err.Error()
	}
	// a line cut off after some of its fields has fewer values than the others
	for i := range got {
		if len(got[i].V) != len(got[0].V) {
			outParseErr = fmt.Sprintf("record %d has %d value fields, record 0 has %d (the output is cut off)", i, len(got[i].V), len(got[0].V))
			got = got[:i]
			break
		}
	}
	return got
}

func recsJSON(rs []rec, mp Mapping) [][]interface{} {
	out := make([][]interface{}, 0, len(rs))
	for _, r := range rs {
		row := []interface{}{r.A, r.T}
		for i, v := range r.V {
			if i == 2 && len(r.V) == 3 {
				row = append(row, mp.modelDelta(v)) // diff's dest-src column is a difference, not a value
			} else {
				row = append(row, mp.modelV(v))
			}
		}
		out = append(out, row)
	}
	return out
}

// populate a file with random library writes (named and best), NaN values included
func populate(path string, cfg MCfg, mp Mapping, now int64, rnd *rand.Rand, unit int64, density int) {
	db, err := wt.Open(path)
	if err != nil {
		panic(err)
	}
	defer db.Close()
	k := len(cfg.Layout)
	for i := 0; i < density; i++ {
		sel := rnd.Intn(k + 1)
		var ret int64
		if sel == 0 {
			ret = cfg.Layout[k-1].Step * cfg.Layout[k-1].N
		} else {
			ret = cfg.Layout[sel-1].Step * cfg.Layout[sel-1].N
		}
		n := 1 + rnd.Intn(6)
		pts := make([]wt.Point, n)
		for j := range pts {
			t := now - rnd.Int63n(ret)
			v := mp.V([]int64{(rnd.Int63n(21) - 10) * unit})
			if rnd.Intn(12) == 0 {
				v = math.NaN()
			}
			pts[j] = wt.Point{Time: wt.Timestamp(mp.B + t), Value: wt.Value(v)}
		}
		if err := db.UpdatePointsForArchive(pts, goArchive(sel), wt.Timestamp(mp.B+now)); err != nil {
			panic(err)
		}
	}
	if err := db.Sync(); err != nil {
		panic(err)
	}
}

func createFile(path string, cfg MCfg) {
	os.MkdirAll(filepath.Dir(path), 0755)
	db, err := wt.Create(path, archiveInfoList(cfg), methodOf(cfg.Method), xffFloat(cfg.Xff))
	if err != nil {
		panic(err)
	}
	db.Sync()
	db.Close()
}

func (d *cliDriver) oneCase(seed int64, id int) {
	preStateUnrep = false
	outParseErr = ""
	rnd := rand.New(rand.NewSource(seed*7919 + int64(id)))
	lay := cliLayouts[rnd.Intn(len(cliLayouts))]
	method := drvMethods[rnd.Intn(len(drvMethods))]
	unit := int64(1)
	if method == "average" {
		unit = avgUnit(lay)
		if unit == 0 {
			method, unit = "sum", 1
		}
	}
	cfg := MCfg{Layout: lay, Method: method, Xff: drvXffs[rnd.Intn(len(drvXffs))]}
	other := MCfg{Layout: cliLayouts[(rnd.Intn(len(cliLayouts)-1)+1+indexOfLayout(lay))%len(cliLayouts)], Method: "sum", Xff: [2]int64{0, 1}}
	if rnd.Intn(2) == 0 {
		// the other layout differs from this one only in the number of points of its last archive
		ol := append([]MArch{}, lay...)
		ol[len(ol)-1].N += 1 + int64(rnd.Intn(4))
		other = MCfg{Layout: ol, Method: method, Xff: cfg.Xff}
	}
	k := len(lay)
	maxRet := lay[k-1].Step * lay[k-1].N
	mp := Mapping{B: drvBases[rnd.Intn(len(drvBases))], Scale: drvScales[rnd.Intn(len(drvScales))]}
	if (d.prop == "C08" || d.prop == "C09" || d.prop == "C18") && (method == "last" || method == "max" || method == "min" || method == "first") && rnd.Intn(3) == 0 {
		// values that differ in the last bit only / need 17 significant digits (no value arithmetic happens with these methods)
		mp.Off, mp.Scale = 1, 1.0/(1<<52)
		other.Method = method
	}
	l := lcmAll(lay) * lcmAll(other.Layout)
	mp.B -= mp.B % l
	omax := other.Layout[len(other.Layout)-1].Step * other.Layout[len(other.Layout)-1].N
	if omax > maxRet {
		maxRet = omax
	}
	now := maxRet + 2*lay[len(lay)-1].Step + 1000 + rnd.Int63n(3000)
	root := filepath.Join(d.root, fmt.Sprintf("c%d", id))
	defer os.RemoveAll(root)
	e := &cliEnv{root: root, srcBase: filepath.Join(root, "src"), destBase: filepath.Join(root, "dst"), mp: mp, now: now}
	os.MkdirAll(root, 0755)
	cmd.VerifNow = func() wt.Timestamp { return wt.Timestamp(mp.B + now) }
	defer func() { cmd.VerifNow = nil }()

	nitems := 1 + rnd.Intn(3)
	delta := lay[0].Step * int64(1+rnd.Intn(3)) // the command's clock advances by delta between files (glob copy)
	popNow := now
	if (d.prop == "C08" || d.prop == "C11") && nitems > 1 {
		popNow = now + int64(nitems)*delta
	}
	nsrc := 1 + rnd.Intn(3)
	type itemT struct {
		name string
		srcs []string
		dst  string
		dcfg MCfg
	}
	var items []itemT
	for it := 0; it < nitems; it++ {
		item := itemT{name: fmt.Sprintf("item%d", it+1)}
		for s := 0; s < nsrc; s++ {
			p := filepath.Join(e.srcBase, item.name, fmt.Sprintf("s%d.wsp", s+1))
			c := cfg
			if s > 0 && rnd.Intn(15) == 0 {
				c = other // differing layouts among the sources
			}
			createFile(p, c)
			if rnd.Intn(8) != 0 {
				populate(p, c, mp, popNow, rnd, unit, 2+rnd.Intn(12))
			}
			item.srcs = append(item.srcs, p)
		}
		item.dst = filepath.Join(e.destBase, item.name, "d.wsp")
		item.dcfg = cfg
		if k >= 3 && rnd.Intn(3) == 0 && (d.prop == "C08" || d.prop == "C11") {
			// directed tree: source and destination agree in the coarsest archive on a value that is NOT the aggregate of
			// the finer archives, and differ in the finest one (a copy's own propagation then rewrites matching slots)
			for _, p := range item.srcs {
				os.Remove(p)
			}
			item.srcs = item.srcs[:1]
			createFile(item.srcs[0], cfg)
			createFile(item.dst, cfg)
			t := now - rnd.Int63n(lay[0].Step*lay[0].N)
			xm := (1 + rnd.Int63n(9)) * unit
			x := mp.V([]int64{xm})
			for fi, p := range []string{item.srcs[0], item.dst} {
				db, err := wt.Open(p)
				if err != nil {
					panic(err)
				}
				v := x
				if fi == 1 {
					v = mp.V([]int64{2 * xm})
				}
				db.UpdatePointForArchive(0, wt.Timestamp(mp.B+t), wt.Value(v), wt.Timestamp(mp.B+now))
				db.UpdatePointForArchive(k-1, wt.Timestamp(mp.B+t), wt.Value(mp.V([]int64{3 * xm})), wt.Timestamp(mp.B+now))
				db.Sync()
				db.Close()
			}
			items = append(items, item)
			continue
		}
		switch rnd.Intn(6) {
		case 0: // absent
		case 1: // different layout
			item.dcfg = other
			createFile(item.dst, other)
		case 2: // exact copy of the first source
			b, _ := ioutil.ReadFile(item.srcs[0])
			os.MkdirAll(filepath.Dir(item.dst), 0755)
			ioutil.WriteFile(item.dst, b, 0644)
		default:
			createFile(item.dst, cfg)
			if rnd.Intn(4) != 0 {
				populate(item.dst, cfg, mp, now, rnd, unit, 1+rnd.Intn(10))
			}
		}
		items = append(items, item)
	}
	srcCfg := func(p string) MCfg {
		buf, err := ioutil.ReadFile(p)
		if err != nil {
			return cfg
		}
		h, _, err := decodeFile(buf)
		if err != nil {
			return cfg
		}
		same := len(h.Archs) == len(cfg.Layout)
		for i := 0; same && i < len(h.Archs); i++ {
			same = int64(h.Archs[i].Step) == cfg.Layout[i].Step && int64(h.Archs[i].N) == cfg.Layout[i].N
		}
		if same {
			return cfg
		}
		return other
	}
	// arguments
	sel := rnd.Intn(k + 1)
	if rnd.Intn(20) == 0 {
		sel = k + 1
	}
	var f, u int64
	switch rnd.Intn(7) {
	case 6:
		// a window in the past: wholly older than a finer archive's retention, inside the next coarser one's
		f = now - rnd.Int63n(maxRet+3)
		u = f + rnd.Int63n(maxRet+3)
		if k > 1 {
			i := rnd.Intn(k - 1)
			ri, rj := lay[i].Step*lay[i].N, lay[i+1].Step*lay[i+1].N
			u = now - ri - 1 - rnd.Int63n(lay[i+1].Step+1)
			f = u - rnd.Int63n(rj-ri+1)
			if rnd.Intn(2) == 0 {
				sel = 0
			}
		}
	case 0:
		f, u = 0, 0
	case 1:
		f = now - rnd.Int63n(maxRet+5)
		u = f
	case 2:
		f = now - maxRet - 3 + rnd.Int63n(6)
		u = 0
	case 3:
		a := lay[rnd.Intn(k)]
		f = now - a.Step*a.N - 2 + rnd.Int63n(5)
		u = f + rnd.Int63n(a.Step*a.N)
	default:
		f = now - rnd.Int63n(maxRet+3)
		u = f + rnd.Int63n(maxRet+3)
	}
	if u != 0 && u < f {
		u = f
	}
	from, until := e.realT(f), e.realT(u)
	arch := cmdArchive(sel)
	cn := rnd.Intn(2) == 0
	base := map[string]interface{}{"now": now, "sel": sel, "f": f, "u": u, "B": mp.B, "scale": mp.Scale, "case": id}
	line := func(ev string, extra map[string]interface{}) {
		if preStateUnrep {
			return
		}
		m := map[string]interface{}{"ev": ev}
		for k2, v := range base {
			m[k2] = v
		}
		for k2, v := range extra {
			m[k2] = v
		}
		if outParseErr != "" {
			m["parse_error"] = outParseErr
			outParseErr = ""
		}
		d.emit(m)
	}
	filesOf := func(it itemT) []sfile {
		var out []sfile
		ps := append([]string{}, it.srcs...)
		sort.Strings(ps)
		for _, p := range ps {
			out = append(out, snapshot(p, srcCfg(p), mp))
		}
		return out
	}
	postOf := func(path string) [][]interface{} {
		e2 := *e
		db, err := wt.Open(path, wt.WithoutFlock())
		if err != nil {
			return [][]interface{}{}
		}
		db.Close()
		rs, _ := e2.postRecsPath(path, sel, f, u)
		return recsJSON(rs, mp)
	}
	glob := nitems > 1
	var tout string
	switch d.prop {
	case "C08":
		type pre struct{ src, dst sfile }
		pres := make([]pre, len(items))
		for i, it := range items {
			pres[i] = pre{snapshot(it.srcs[0], srcCfg(it.srcs[0]), mp), snapshot(it.dst, it.dcfg, mp)}
		}
		c := &cmd.CopyCommand{SrcBase: e.srcBase, DestBase: e.destBase, AggregationMethod: methodOf(cfg.Method), XFilesFactor: xffFloat(cfg.Xff),
			ArchiveInfoList: archiveInfoList(cfg), From: from, Until: until, ArchiveID: arch, CopyNaN: cn}
		var nows []int64
		if glob {
			// the wall clock advances while the command works through the files: every file is read at its own instant
			calls := 0
			cmd.VerifNow = func() wt.Timestamp {
				t := now + int64(calls)*delta
				calls++
				nows = append(nows, t)
				return wt.Timestamp(mp.B + t)
			}
			if rnd.Intn(2) == 0 {
				u, until = 0, 0 // default upper bound: "until now", per file
				base["u"] = u
			}
			c.Until = until
		}
		if glob {
			// glob mode: destination is the same relative path under the destination base
			for _, it := range items {
				os.MkdirAll(filepath.Dir(it.dst), 0755)
				if _, err := os.Stat(it.dst); err == nil {
					os.Rename(it.dst, filepath.Join(filepath.Dir(it.dst), "s1.wsp"))
				}
			}
			c.SrcRelPath = "item*/s1.wsp"
		} else {
			c.SrcRelPath = "item1/s1.wsp"
			c.DestRelPath = "item1/d.wsp"
		}
		res := e.runCmd(c, &tout2(c).TextOut)
		for i, it := range items {
			dp := it.dst
			if glob {
				dp = filepath.Join(filepath.Dir(it.dst), "s1.wsp")
			}
			kclass := res.Class
			if glob && res.Class != "ok" {
				continue // a failing file stops the glob run; per-file attribution is not defined
			}
			ev := map[string]interface{}{"ccfg": cfg, "src": pres[i].src, "dst": pres[i].dst, "cn": cn, "k": kclass, "msg": res.Msg, "glob": glob}
			if glob && i < len(nows) {
				ev["now"] = nows[i]
				e2 := *e
				e2.now = nows[i]
				rs, _ := e2.postRecsPath(dp, sel, f, u)
				ev["post"] = recsJSON(rs, mp)
			} else {
				ev["post"] = postOf(dp)
			}
			line("copy", ev)
		}
	case "C09":
		if glob {
			// glob mode: every matched file is compared with the same relative path under the destination base
			var pairs []map[string]interface{}
			for _, it := range items {
				os.MkdirAll(filepath.Dir(it.dst), 0755)
				tgt := filepath.Join(filepath.Dir(it.dst), "s1.wsp")
				if _, err := os.Stat(it.dst); err == nil {
					os.Rename(it.dst, tgt)
				}
				pairs = append(pairs, map[string]interface{}{"src": snapshot(it.srcs[0], srcCfg(it.srcs[0]), mp), "dst": snapshot(tgt, it.dcfg, mp)})
			}
			c := &cmd.DiffCommand{SrcBase: e.srcBase, SrcRelPath: "item*/s1.wsp", DestBase: e.destBase, From: from, Until: until, ArchiveID: arch}
			res := e.runCmd(c, &c.TextOut)
			got := parseOut(res.Text, mp)
			line("diffglob", map[string]interface{}{"pairs": pairs, "k": res.Class, "msg": res.Msg, "recs": recsJSON(got, mp)})
			break
		}
		it := items[0]
		c := &cmd.DiffCommand{SrcBase: e.srcBase, SrcRelPath: "item1/s1.wsp", DestBase: e.destBase, DestRelPath: "item1/d.wsp", From: from, Until: until, ArchiveID: arch}
		res := e.runCmd(c, &c.TextOut)
		got := parseOut(res.Text, mp)
		line("diff", map[string]interface{}{"src": snapshot(it.srcs[0], srcCfg(it.srcs[0]), mp), "dst": snapshot(it.dst, it.dcfg, mp), "k": res.Class, "msg": res.Msg, "recs": recsJSON(got, mp)})
		// a file missing on the destination side, the destination being a server: still a reported difference
		if d.srv == nil || !d.srv.alive() {
			d.srv.stop()
			var serr error
			d.srv, serr = startServer(d.root)
			if serr != nil {
				panic(serr)
			}
		}
		if sel <= k && (u == 0 || f <= u) {
			relDst, _ := filepath.Rel(d.root, e.destBase)
			c2 := &cmd.DiffCommand{SrcBase: e.srcBase, SrcRelPath: "item1/s1.wsp", DestBase: d.srv.url, DestRelPath: filepath.Join(relDst, "item1", "missing.wsp"), From: from, Until: until, ArchiveID: arch}
			res = e.runCmd(c2, &c2.TextOut)
			line("diff", map[string]interface{}{"src": snapshot(it.srcs[0], srcCfg(it.srcs[0]), mp), "dst": sfile{Absent: true}, "k": res.Class, "msg": res.Msg, "recs": [][]interface{}{}, "via": "http-dest-missing"})
		}
	case "C10":
		it := items[0]
		c := &cmd.SumCommand{SrcBase: e.srcBase, ItemPattern: "item1", SrcPattern: "s*.wsp", From: from, Until: until, ArchiveID: arch, ShowHeader: false}
		res := e.runCmd(c, &c.TextOut)
		got := parseOut(res.Text, mp)
		line("sum", map[string]interface{}{"files": filesOf(it), "k": res.Class, "msg": res.Msg, "recs": recsJSON(got, mp)})
		// an item several directories deep, reached through an item glob (item names use dots for directory separators)
		nested := filepath.Join(e.srcBase, "dc1", "web", "cpu")
		os.MkdirAll(nested, 0755)
		for _, p := range it.srcs {
			b, _ := ioutil.ReadFile(p)
			ioutil.WriteFile(filepath.Join(nested, filepath.Base(p)), b, 0644)
		}
		c2 := &cmd.SumCommand{SrcBase: e.srcBase, ItemPattern: []string{"dc1/*/cpu", "dc1/web/cpu", "dc?/w*/c[op]u"}[rnd.Intn(3)], SrcPattern: "s*.wsp", From: from, Until: until, ArchiveID: arch, ShowHeader: false}
		res = e.runCmd(c2, &c2.TextOut)
		got = parseOut(res.Text, mp)
		line("sum", map[string]interface{}{"files": filesOf(it), "k": res.Class, "msg": res.Msg, "recs": recsJSON(got, mp), "item": "nested"})
		// the same sum through a server
		if d.srv == nil || !d.srv.alive() {
			d.srv.stop()
			var serr error
			d.srv, serr = startServer(d.root)
			if serr != nil {
				panic(serr)
			}
		}
		relBase, _ := filepath.Rel(d.root, e.srcBase)
		c3 := &cmd.SumCommand{SrcBase: d.srv.url, ItemPattern: filepath.Join(relBase, "item1"), SrcPattern: "s*.wsp", From: from, Until: until, ArchiveID: arch, ShowHeader: false}
		res = e.runCmd(c3, &c3.TextOut)
		got = parseOut(res.Text, mp)
		line("sum", map[string]interface{}{"files": filesOf(it), "k": res.Class, "msg": res.Msg, "recs": recsJSON(got, mp), "via": "http"})
	case "C11":
		if glob {
			// several items: every item is compared; one deviating item makes the run report a difference
			var its []map[string]interface{}
			for _, it := range items {
				// what the real sum computes for this item (C11 is relative to it)
				sc := &cmd.SumCommand{SrcBase: e.srcBase, ItemPattern: it.name, SrcPattern: "s*.wsp", From: from, Until: until, ArchiveID: arch, ShowHeader: false}
				sres := e.runCmd(sc, &sc.TextOut)
				sgot, _, _ := parsePointLines(sres.Text, mp)
				its = append(its, map[string]interface{}{"files": filesOf(it), "dst": snapshot(it.dst, it.dcfg, mp), "sumk": sres.Class, "sumrecs": recsJSON(sgot, mp)})
			}
			sd := &cmd.SumDiffCommand{SrcBase: e.srcBase, ItemPattern: "item*", SrcPattern: "s*.wsp", DestBase: e.destBase, DestRelPath: "d.wsp", From: from, Until: until, ArchiveID: arch}
			res := e.runCmd(sd, &sd.TextOut)
			got := parseOut(res.Text, mp)
			line("sumdiffglob", map[string]interface{}{"items": its, "k": res.Class, "msg": res.Msg, "recs": recsJSON(got, mp)})
			// sum-copy over all items, then every destination holds its item's sum
			pres := make([]sfile, len(items))
			for i, it := range items {
				pres[i] = snapshot(it.dst, it.dcfg, mp)
			}
			// the wall clock advances from item to item: every item is summed and stored at its own instant
			u2, until2 := u, until
			if rnd.Intn(2) == 0 {
				u2, until2 = 0, 0 // default upper bound: "until now", per item
			}
			calls := 0
			var nows []int64
			cmd.VerifNow = func() wt.Timestamp {
				t := now + int64(calls)*delta
				calls++
				nows = append(nows, t)
				return wt.Timestamp(mp.B + t)
			}
			c := &cmd.SumCopyCommand{SrcBase: e.srcBase, DestBase: e.destBase, ItemPattern: "item*", SrcPattern: "s*.wsp", DestRelPath: "d.wsp",
				AggregationMethod: methodOf(cfg.Method), XFilesFactor: xffFloat(cfg.Xff), ArchiveInfoList: archiveInfoList(cfg), From: from, Until: until2, ArchiveID: arch}
			res = e.runCmd(c, &c.TextOut)
			if res.Class == "ok" && len(nows) == len(items) {
				for i, it := range items {
					ni := nows[i]
					cmd.VerifNow = func() wt.Timestamp { return wt.Timestamp(mp.B + ni) }
					sc := &cmd.SumCommand{SrcBase: e.srcBase, ItemPattern: it.name, SrcPattern: "s*.wsp", From: from, Until: until2, ArchiveID: arch, ShowHeader: false}
					sres := e.runCmd(sc, &sc.TextOut)
					sgot, _, _ := parsePointLines(sres.Text, mp)
					e2 := *e
					e2.now = ni
					rs, _ := e2.postRecsPath(it.dst, sel, f, u2)
					line("sumcopy", map[string]interface{}{"ccfg": cfg, "files": its[i]["files"], "dst": pres[i], "k": res.Class, "msg": res.Msg, "post": recsJSON(rs, mp), "glob": true,
						"now": ni, "u": u2, "sumk": sres.Class, "sumrecs": recsJSON(sgot, mp)})
				}
			}
			cmd.VerifNow = func() wt.Timestamp { return wt.Timestamp(mp.B + now) }
			break
		}
		it := items[0]
		pre := snapshot(it.dst, it.dcfg, mp)
		files := filesOf(it)
		// what the real sum computes for the same arguments and clock (C11 is relative to it)
		sc := &cmd.SumCommand{SrcBase: e.srcBase, ItemPattern: "item1", SrcPattern: "s*.wsp", From: from, Until: until, ArchiveID: arch, ShowHeader: false}
		sres := e.runCmd(sc, &sc.TextOut)
		sgot, _, _ := parsePointLines(sres.Text, mp)
		base["sumk"] = sres.Class
		base["sumrecs"] = recsJSON(sgot, mp)
		sd := &cmd.SumDiffCommand{SrcBase: e.srcBase, ItemPattern: "item1", SrcPattern: "s*.wsp", DestBase: e.destBase, DestRelPath: "d.wsp", From: from, Until: until, ArchiveID: arch}
		res := e.runCmd(sd, &sd.TextOut)
		got := parseOut(res.Text, mp)
		line("sumdiff", map[string]interface{}{"files": files, "dst": pre, "k": res.Class, "msg": res.Msg, "recs": recsJSON(got, mp)})
		c := &cmd.SumCopyCommand{SrcBase: e.srcBase, DestBase: e.destBase, ItemPattern: "item1", SrcPattern: "s*.wsp", DestRelPath: "d.wsp",
			AggregationMethod: methodOf(cfg.Method), XFilesFactor: xffFloat(cfg.Xff), ArchiveInfoList: archiveInfoList(cfg), From: from, Until: until, ArchiveID: arch}
		res = e.runCmd(c, &c.TextOut)
		line("sumcopy", map[string]interface{}{"ccfg": cfg, "files": files, "dst": pre, "k": res.Class, "msg": res.Msg, "post": postOf(it.dst)})
	case "C20":
		dest := filepath.Join(root, "gen.wsp")
		max := []int{0, 1, 5, 100}[rnd.Intn(4)]
		fill := rnd.Intn(4) != 0
		gmp := Mapping{B: mp.B, Scale: 1}
		c := &cmd.GenerateCommand{Dest: dest, Perm: 0644, AggregationMethod: methodOf(cfg.Method), XFilesFactor: xffFloat(cfg.Xff),
			ArchiveInfoList: archiveInfoList(cfg), RandMax: max, Fill: fill}
		var res cmdResult
		raceOKs := -1
		if id%4 == 2 {
			// several generate commands race for the same fresh destination: exactly one may create it, the others must be
			// refused and leave the winner's file alone (several rounds: how often the window is hit depends on the load)
			for round := 0; round < 10 && raceOKs <= 1; round++ {
				os.Remove(dest)
				nr := 3 + rnd.Intn(4)
				results := make([]cmdResult, nr)
				start := make(chan struct{})
				var wg, ready sync.WaitGroup
				for gi := 0; gi < nr; gi++ {
					wg.Add(1)
					ready.Add(1)
					go func(gi int) {
						defer wg.Done()
						cc := *c
						cc.TextOut = ""
						cc.ArchiveInfoList = archiveInfoList(cfg)
						ready.Done()
						<-start
						func() {
							defer func() {
								if r := recover(); r != nil {
									results[gi].Class, results[gi].Msg = "panic", fmt.Sprint(r)
								}
							}()
							results[gi].Class, results[gi].Msg = classify(cc.Execute())
						}()
					}(gi)
				}
				ready.Wait()
				close(start)
				wg.Wait()
				raceOKs = 0
				res = results[0]
				for _, r := range results {
					if r.Class == "ok" {
						raceOKs++
						res = r
					} else if r.Class == "panic" {
						res = r
						break
					}
				}
			}
		} else {
			res = e.runCmd(c, &c.TextOut)
		}
		hdr := MCfg{Layout: []MArch{}, Method: "?", Xff: [2]int64{0, 1}}
		buf, _ := ioutil.ReadFile(dest)
		snap := sfile{}
		if _, _, derr := decodeFile(buf); derr == nil || len(buf) == 0 {
			snap = snapshot(dest, cfg, gmp)
		} // else: what generate left is no Whisper file; the line says so through hdr = "?"
		if h, _, err := decodeFile(buf); err == nil && headerMatches(h, cfg) == nil {
			hdr = cfg
		}
		c2 := *c
		r2 := e.runCmd(&c2, &c2.TextOut)
		buf2, _ := ioutil.ReadFile(dest)
		post := snap.Sp
		if post == nil {
			post = make([][][]interface{}, k)
			for i := range post {
				post[i] = [][]interface{}{}
			}
		}
		again := r2.Class
		if raceOKs > 1 {
			again = "ok" // a racing generate was not refused
		}
		ev := map[string]interface{}{"cfg": cfg, "hdr": hdr, "max": max, "fill": fill, "k": res.Class, "msg": res.Msg,
			"post": post, "again": again, "unchanged": string(buf) == string(buf2)}
		if raceOKs >= 0 {
			ev["race_oks"] = raceOKs
		}
		line("generate", ev)
	case "C18":
		it := items[0]
		src := snapshot(it.srcs[0], srcCfg(it.srcs[0]), mp)
		c := &cmd.ViewCommand{SrcBase: e.srcBase, SrcRelPath: "item1/s1.wsp", From: from, Until: until, ArchiveID: arch, ShowHeader: rnd.Intn(2) == 0}
		res := e.runCmd(c, &c.TextOut)
		got := parseOut(res.Text, mp)
		line("view", map[string]interface{}{"src": src, "k": res.Class, "msg": res.Msg, "recs": recsJSON(got, mp)})
		sorted := rnd.Intn(2) == 0
		vr := &cmd.ViewRawCommand{SrcBase: e.srcBase, SrcRelPath: "item1/s1.wsp", From: from, Until: until, ArchiveID: arch, ShowHeader: false, SortsByTime: sorted}
		res = e.runCmd(vr, &vr.TextOut)
		got = parseOut(res.Text, mp)
		line("viewraw", map[string]interface{}{"src": src, "sorted": sorted, "k": res.Class, "msg": res.Msg, "recs": recsJSON(got, mp)})
	}
	_ = tout
}

func tout2(c *cmd.CopyCommand) *cmd.CopyCommand { return c }

func indexOfLayout(l []MArch) int {
	for i, x := range cliLayouts {
		if len(x) == len(l) && x[0] == l[0] {
			return i
		}
	}
	return 0
}

func (e *cliEnv) postRecsPath(path string, sel int, f, u int64) ([]rec, error) {
	db, err := wt.Open(path, wt.WithoutFlock())
	if err != nil {
		return nil, err
	}
	defer db.Close()
	k := len(db.ArchiveInfoList())
	until := u
	if u == 0 {
		until = e.now
	}
	var out []rec
	for a := 1; a <= k; a++ {
		if sel != 0 && sel != a {
			continue
		}
		o := doFetch(db, a-1, uint32(e.realT(f)), uint32(e.realT(until)), uint32(e.mp.B+e.now))
		if o.Kind != "ts" {
			continue
		}
		for i, v := range o.Vals {
			out = append(out, rec{A: a, T: int64(o.Times[i]) - e.mp.B, V: []float64{v}})
		}
	}
	return out, nil
}

// drive-cli <prop> <seed> <first> <count> <out.ndjson>
func runDriveCLI(args []string) int {
	var seed int64
	var first, n int
	fmt.Sscan(args[1], &seed)
	fmt.Sscan(args[2], &first)
	fmt.Sscan(args[3], &n)
	f, err := os.Create(args[4])
	if err != nil {
		fmt.Fprintln(os.Stderr, err)
		return 2
	}
	defer f.Close()
	d := &cliDriver{prop: args[0], w: bufio.NewWriterSize(f, 1<<20), root: scratchDir()}
	defer os.RemoveAll(d.root)
	defer func() { d.srv.stop() }()
	for i := first; i < first+n; i++ {
		fmt.Fprintf(os.Stderr, "CASE %d\n", i)
		d.oneCase(seed, i)
		d.w.Flush()
	}
	fmt.Printf("{\"cases\":%d,\"lines\":%d}\n", n, d.n)
	return 0
}
