package main

import (
	"bufio"
	"encoding/json"
	"fmt"
	"io/ioutil"
	"math/rand"
	"os"
	"runtime"
	"sync"
	"sync/atomic"

	wt "github.com/hnakamur/whispertool"
)

// C19 binding.

func chars(s string) []string {
	out := make([]string, 0, len(s))
	for _, r := range s {
		out = append(out, string(r))
	}
	return out
}

func joinChars(cs []string) string {
	s := ""
	for _, c := range cs {
		s += c
	}
	return s
}

// text-strings <export-file> <result-json>: every enumerated string with its specified meaning
// is fed to the real ParseDuration.
func runTextStrings(args []string) int {
	f, err := os.Open(args[0])
	if err != nil {
		fmt.Fprintln(os.Stderr, err)
		return 2
	}
	defer f.Close()
	sc := bufio.NewScanner(f)
	sc.Buffer(make([]byte, 1<<20), 1<<26)
	var viols []violation
	var samples []interface{}
	n := 0
	for sc.Scan() {
		b := sc.Bytes()
		if len(b) < 5 || b[0] != '"' {
			continue
		}
		var s string
		if json.Unmarshal(b, &s) != nil {
			continue
		}
		var c struct {
			Kind string   `json:"kind"`
			S    []string `json:"s"`
			V    int64    `json:"v"`
			Open bool     `json:"open"`
		}
		if json.Unmarshal([]byte(s), &c) != nil {
			continue
		}
		if c.Kind == "arch" || c.Kind == "lay" {
			var a struct {
				Kind string             `json:"kind"`
				S    []string           `json:"s"`
				Ok   bool               `json:"ok"`
				L    []map[string]int64 `json:"l"`
			}
			if json.Unmarshal([]byte(s), &a) != nil {
				continue
			}
			n++
			str := joinChars(a.S)
			if a.Kind == "lay" {
				// printing: the real list prints as the specification says, and parses back to itself
				var l wt.ArchiveInfoList
				for _, e := range a.L {
					l = append(l, wt.NewArchiveInfo(wt.Duration(e["step"]), uint32(e["n"])))
				}
				if got := l.String(); got != str && len(viols) < 40 {
					viols = append(viols, violation{Prop: "C19", What: "ArchiveInfoList.String", Detail: fmt.Sprintf("%v prints as %q, specification says %q", a.L, got, str),
						Line: map[string]interface{}{"l": a.L}})
				}
			}
			p, err := wt.ParseArchiveInfoList(str)
			same := err == nil && len(p) == len(a.L)
			if same {
				for i, e := range layJSON(p) {
					if e["step"] != a.L[i]["step"] || e["n"] != a.L[i]["n"] {
						same = false
					}
				}
			}
			if ((err == nil) != a.Ok || (a.Ok && !same)) && len(viols) < 40 {
				viols = append(viols, violation{Prop: "C19", What: "ParseArchiveInfoList", Detail: fmt.Sprintf("%q -> %v (err=%v), specification says ok=%v %v", str, layJSON(p), err, a.Ok, a.L),
					Line: map[string]interface{}{"s": str}})
			}
			continue
		}
		if c.Kind != "dur" {
			continue
		}
		n++
		if c.Open {
			continue
		}
		str := joinChars(c.S)
		d, err := wt.ParseDuration(str)
		got := int64(d)
		if err != nil {
			got = -1
		}
		if n%997 == 3 && len(samples) < 4 {
			samples = append(samples, map[string]interface{}{"string": str, "specified": c.V, "real": got})
		}
		if got != c.V && len(viols) < 40 {
			viols = append(viols, violation{Prop: "C19", What: "ParseDuration", Detail: fmt.Sprintf("%q -> %d (err=%v), specification says %d", str, got, err, c.V),
				Line: map[string]interface{}{"s": str}})
		}
	}
	if n == 0 {
		fmt.Fprintln(os.Stderr, "no strings exported")
		return 2
	}
	res := map[string]interface{}{"evaluations": n, "violations": append([]violation{}, viols...), "samples": samples}
	b, _ := json.MarshalIndent(res, "", " ")
	ioutil.WriteFile(args[1], b, 0644)
	return 0
}

func layJSON(l wt.ArchiveInfoList) []map[string]int64 {
	out := []map[string]int64{}
	for i := range l {
		out = append(out, map[string]int64{"step": int64(l[i].SecondsPerPoint()), "n": int64(l[i].NumberOfPoints())})
	}
	return out
}

// drive-text <seed> <count> <out.ndjson>
func runDriveText(args []string) int {
	var seed int64
	var n int
	fmt.Sscan(args[0], &seed)
	fmt.Sscan(args[1], &n)
	f, err := os.Create(args[2])
	if err != nil {
		fmt.Fprintln(os.Stderr, err)
		return 2
	}
	defer f.Close()
	w := bufio.NewWriter(f)
	defer w.Flush()
	rnd := rand.New(rand.NewSource(seed))
	emit := func(m map[string]interface{}) {
		b, _ := json.Marshal(m)
		w.Write(b)
		w.WriteByte('\n')
	}
	units := []int64{1, 60, 3600, 86400, 604800, 31536000}
	durs := []int64{0, 1, 59, 60, 61, 2147483647, 2147483646, 2147472000, 31536000 * 68, 604800 * 3550}
	for i := 0; i < n; i++ {
		switch rnd.Intn(3) {
		case 0:
			durs = append(durs, rnd.Int63n(1<<31))
		case 1:
			u := units[rnd.Intn(len(units))]
			k := rnd.Int63n((1<<31 - 1) / u)
			durs = append(durs, k*u+int64(rnd.Intn(3))-1)
		default:
			durs = append(durs, rnd.Int63n(200000))
		}
	}
	for _, x := range durs {
		if x < 0 || x > 2147483647 {
			continue
		}
		s := wt.Duration(x).String()
		p, err := wt.ParseDuration(s)
		pv := int64(p)
		if err != nil {
			pv = -1
		}
		emit(map[string]interface{}{"ev": "dur", "x": x, "s": chars(s), "p": pv})
	}
	// timestamps
	ts := []uint64{0, 1, 86399, 86400, 951782400, 951868799, 1582934400, 2147483647, 2147483648, 4102444800, 4107542399, 4107542400, 4294967295, 4294944000}
	for i := 0; i < n; i++ {
		ts = append(ts, uint64(rnd.Uint32()))
	}
	for _, t := range ts {
		s := wt.Timestamp(t).String()
		p, err := wt.ParseTimestamp(s)
		var pv []int64
		if err != nil {
			pv = []int64{-1}
		} else {
			pv = []int64{int64(p) / 86400, int64(p) % 86400}
		}
		emit(map[string]interface{}{"ev": "ts", "day": int64(t / 86400), "sod": int64(t % 86400), "s": chars(s), "p": pv})
	}
	// arbitrary timestamp strings: range edges, invalid calendar dates, malformed shapes
	tstr := []string{"1970-01-01T00:00:00Z", "1969-12-31T23:59:59Z", "2106-02-07T06:28:15Z", "2106-02-07T06:28:16Z", "2200-01-01T00:00:00Z",
		"2021-02-29T00:00:00Z", "2020-02-29T00:00:00Z", "2100-02-29T00:00:00Z", "2000-02-29T12:00:00Z", "2020-13-01T00:00:00Z", "2020-00-10T00:00:00Z",
		"2020-01-32T00:00:00Z", "2020-01-01T24:00:00Z", "2020-01-01T00:60:00Z", "2020-01-01T00:00:60Z", "2020-01-01 00:00:00Z", "2020-01-01T00:00:00",
		"2020-1-01T00:00:00Z", "20200101T000000Z", "", "2020-01-01T00:00:00+00:00", "9999-12-31T23:59:59Z", "0000-01-01T00:00:00Z", "2038-01-19T03:14:08Z"}
	for i := 0; i < n/4; i++ {
		y := 1960 + rnd.Intn(200)
		tstr = append(tstr, fmt.Sprintf("%04d-%02d-%02dT%02d:%02d:%02dZ", y, rnd.Intn(14), rnd.Intn(33), rnd.Intn(25), rnd.Intn(61), rnd.Intn(61)))
	}
	for _, s := range tstr {
		p, err := wt.ParseTimestamp(s)
		var pv []int64
		if err != nil {
			pv = []int64{-1}
		} else {
			pv = []int64{int64(p) / 86400, int64(p) % 86400}
		}
		emit(map[string]interface{}{"ev": "tsparse", "s": chars(s), "p": pv})
	}
	// duration strings at the 31-bit edge of every unit
	for _, s := range []string{"2147483647s", "2147483648s", "35791394m", "35791395m", "596523h", "596524h", "24855d", "24856d", "3550w", "3551w", "68y", "69y",
		"0s", "00s", "0y", "s", "1", "", "1ss", "1sm", "-1s", "+1s", "1 s", " 1s", "1S", "1.5s", "99999999999999999999s", "4294967297s", "1x"} {
		p, err := wt.ParseDuration(s)
		pv := int64(p)
		if err != nil {
			pv = -1
		}
		emit(map[string]interface{}{"ev": "durparse", "s": chars(s), "p": pv})
	}
	// archive lists
	steps := []int64{1, 2, 10, 60, 300, 3600, 86400}
	for i := 0; i < n/2; i++ {
		k := 1 + rnd.Intn(3)
		var l wt.ArchiveInfoList
		st := steps[rnd.Intn(3)]
		prevN, prevR := int64(0), int64(1)
		for j := 0; j < k; j++ {
			r := int64(2 + rnd.Intn(5)) // ratio to the next archive
			np := r * int64(1+rnd.Intn(60))
			if np <= prevN/prevR {
				np = (prevN/prevR + 1 + r) / r * r
			}
			if st*np > 2000000000 || np > 20000000 {
				break
			}
			l = append(l, wt.NewArchiveInfo(wt.Duration(st), uint32(np)))
			prevN, prevR = np, r
			st *= r
		}
		if i%7 == 3 {
			// a single archive of one point: valid, prints as "step:step"
			l = wt.ArchiveInfoList{wt.NewArchiveInfo(wt.Duration(steps[rnd.Intn(len(steps))]*int64(1+rnd.Intn(3))), 1)}
		}
		if len(l) == 0 {
			continue
		}
		s := l.String()
		p, err := wt.ParseArchiveInfoList(s)
		pj := layJSON(p)
		if err != nil {
			pj = []map[string]int64{}
		}
		emit(map[string]interface{}{"ev": "lay", "l": layJSON(l), "s": chars(s), "p": pj})
	}
	for m := 1; m <= 8; m++ { // every declared value (from the const block, not from the generated table)
		s := wt.AggregationMethod(m).String()
		p, err := wt.AggregationMethodString(s)
		pv := int(p)
		if err != nil {
			pv = -1
		}
		emit(map[string]interface{}{"ev": "method", "m": m, "s": s, "p": pv})
	}
	return 0
}

// text-sweep <result-json> <what>: the round-trip law over the whole 32-bit domains on the real code
// (no oracle needed): parse(print(x)) = x for all 2^31 durations / all 2^32 timestamps.
func runTextSweep(args []string) int {
	what := args[1]
	nw := runtime.NumCPU()
	var bad int64
	var firstBad int64 = -1
	var wg sync.WaitGroup
	var total uint64 = 1 << 31
	if what == "timestamps" {
		total = 1 << 32
	}
	chunk := total / uint64(nw)
	for w := 0; w < nw; w++ {
		wg.Add(1)
		go func(w int) {
			defer wg.Done()
			lo := uint64(w) * chunk
			hi := lo + chunk
			if w == nw-1 {
				hi = total
			}
			for x := lo; x < hi; x++ {
				ok := false
				if what == "timestamps" {
					p, err := wt.ParseTimestamp(wt.Timestamp(uint32(x)).String())
					ok = err == nil && uint64(p) == x
				} else {
					p, err := wt.ParseDuration(wt.Duration(int32(x)).String())
					ok = err == nil && uint64(p) == x
				}
				if !ok {
					if atomic.AddInt64(&bad, 1) == 1 {
						atomic.StoreInt64(&firstBad, int64(x))
					}
				}
			}
		}(w)
	}
	wg.Wait()
	res := map[string]interface{}{"what": what, "evaluations": total, "failures": bad, "first_failure": firstBad}
	b, _ := json.MarshalIndent(res, "", " ")
	ioutil.WriteFile(args[0], b, 0644)
	return 0
}
