package main

import (
	"bufio"
	"bytes"
	"encoding/json"
	"fmt"
	"io/ioutil"
	"math/rand"
	"os"
	"path/filepath"
	"time"

	gw "github.com/go-graphite/go-whisper"
	wt "github.com/hnakamur/whispertool"
	"github.com/hnakamur/whispertool/cmd"
)

// ---------------------------------------------------------------------------
// C06 (3): files written by the REFERENCE implementation (go-whisper performs its own write
// history; its write semantics are not modelled).  The bytes are parsed independently into a
// state S; the trace starts from S and both readers' results on the same bytes are logged
// as fetch events (h = 1: whispertool, h = 3: go-whisper) and validated against Fetch(S).
// ---------------------------------------------------------------------------

// drive-gw <seed> <count> <out.ndjson>
func runDriveGW(args []string) int {
	var seed int64
	var n int
	fmt.Sscan(args[0], &seed)
	fmt.Sscan(args[1], &n)
	f, err := os.Create(args[2])
	if err != nil {
		return 2
	}
	defer f.Close()
	w := bufio.NewWriter(f)
	defer w.Flush()
	emit := func(m map[string]interface{}) {
		b, _ := json.Marshal(m)
		w.Write(b)
		w.WriteByte('\n')
	}
	dir := scratchDir()
	defer os.RemoveAll(dir)
	gwMethods := map[string]gw.AggregationMethod{"average": gw.Average, "sum": gw.Sum, "last": gw.Last, "max": gw.Max, "min": gw.Min, "first": gw.First}
	for id := 0; id < n; id++ {
		rnd := rand.New(rand.NewSource(seed*7907 + int64(id)))
		lay := drvLayouts[rnd.Intn(len(drvLayouts))].arch
		method := drvMethods[rnd.Intn(len(drvMethods))]
		unit := int64(1)
		if method == "average" {
			unit = avgUnit(lay)
			if unit == 0 {
				method, unit = "sum", 1
			}
		}
		cfg := MCfg{Layout: lay, Method: method, Xff: drvXffs[rnd.Intn(len(drvXffs))]}
		k := len(lay)
		maxRet := lay[k-1].Step * lay[k-1].N
		mp := Mapping{B: drvBases[1+rnd.Intn(2)], Scale: 1} // go-whisper needs real-epoch clocks
		mp.B -= mp.B % lcmAll(lay)
		now := maxRet + 2*lay[len(lay)-1].Step + 1000 + rnd.Int63n(5000)
		path := filepath.Join(dir, fmt.Sprintf("g%d.wsp", id))
		rets := make(gw.Retentions, k)
		for i, a := range lay {
			r := gw.NewRetention(int(a.Step), int(a.N))
			rets[i] = &r
		}
		gwMu.Lock()
		gw.Now = func() time.Time { return time.Unix(mp.B+now, 0) }
		db, err := gw.CreateWithOptions(path, rets, gwMethods[method], xffFloat(cfg.Xff), &gw.Options{FLock: false})
		if err != nil {
			gwMu.Unlock()
			fmt.Fprintln(os.Stderr, "go-whisper create:", err)
			return 2
		}
		steps := 3 + rnd.Intn(12)
		jumpAt := -1
		var futures []int64
		if mp.B == 1600000000-1600000000%lcmAll(lay) && rnd.Intn(3) == 0 {
			jumpAt = 1 + rnd.Intn(steps-1) // one clock jump of several years: slot distances beyond 2^31/12 points
		}
		for s := 0; s < steps; s++ {
			if s == jumpAt {
				now += 180000000 + rnd.Int63n(200000000)
				cur := now
				gw.Now = func() time.Time { return time.Unix(mp.B+cur, 0) }
			}
			if rnd.Intn(4) == 0 {
				now += 1 + rnd.Int63n(lay[rnd.Intn(k)].Step*3)
				cur := now
				gw.Now = func() time.Time { return time.Unix(mp.B+cur, 0) }
			}
			if rnd.Intn(2) == 0 {
				t := now - rnd.Int63n(maxRet)
				db.Update(float64((rnd.Int63n(41)-20)*unit), int(mp.B+t))
			} else {
				m := 1 + rnd.Intn(30)
				pts := make([]*gw.TimeSeriesPoint, m)
				for i := range pts {
					t := now - rnd.Int63n(maxRet)
					pts[i] = &gw.TimeSeriesPoint{Time: int(mp.B + t), Value: float64((rnd.Int63n(41) - 20) * unit)}
				}
				if rnd.Intn(3) == 0 {
					// a point dated ahead of the clock (both writers store it in the finest archive): it takes the ring slot of
					// a live interval one lap earlier, which both readers must then report as empty
					r0 := lay[0].Step * lay[0].N
					t := now + 1 + rnd.Int63n(r0)
					pts = append(pts, &gw.TimeSeriesPoint{Time: int(mp.B + t), Value: float64((rnd.Int63n(41) - 20) * unit)})
					futures = append(futures, t)
				}
				db.UpdateMany(pts)
			}
		}
		db.Close()
		gwMu.Unlock()
		buf, err := ioutil.ReadFile(path)
		if err != nil {
			return 2
		}
		h, rings, err := decodeFile(buf)
		ev := map[string]interface{}{"ev": "create", "cfg": cfg, "B": mp.B, "scale": 1, "trace": id, "writer": "go-whisper"}
		if err != nil || headerMatches(h, cfg) != nil {
			ev["post"] = [][][]interface{}{}
			ev["format_error"] = fmt.Sprint(err, headerMatches(h, cfg))
			emit(ev)
			os.Remove(path)
			continue
		}
		ev["post"] = mp.sparseOf(rings)
		wdb, err := wt.Open(path, wt.WithoutFlock())
		if err == nil {
			// whispertool's view of the reference-written header
			hh := wdb.Header()
			okh := hh.AggregationMethod().String() == cfg.Method && hh.XFilesFactor() == xffFloat(cfg.Xff) && len(hh.ArchiveInfoList()) == k &&
				int64(hh.MaxRetention()) == maxRet
			for i := 0; okh && i < k; i++ {
				a := hh.ArchiveInfoList()[i]
				okh = int64(a.SecondsPerPoint()) == lay[i].Step && int64(a.NumberOfPoints()) == lay[i].N
			}
			ev["hdr_ok"] = okh
		}
		emit(ev)
		if err != nil {
			emit(map[string]interface{}{"ev": "fetch", "h": 1, "a": 0, "f": 0, "u": 0, "now": now, "res": []interface{}{"open-failed"}, "msg": err.Error()})
			os.Remove(path)
			continue
		}
		g := gwOpen(path, uint32(mp.B+now))
		maxStep := lay[k-1].Step
		for q := 0; q < 12+len(futures); q++ {
			// non-degenerate windows inside [now - maxRet + maxStep, now]
			span := maxRet - maxStep
			if span <= 0 {
				break
			}
			fq := now - maxStep - rnd.Int63n(span)
			uq := fq + maxStep + rnd.Int63n(now-fq-maxStep+1)
			if q == 0 {
				fq, uq = now-maxRet+maxStep, now
			}
			if q >= 12 {
				// the interval one lap before a future-dated point, read from the finest archive
				r0, s0 := lay[0].Step*lay[0].N, lay[0].Step
				fq, uq = futures[q-12]-r0-2*s0, futures[q-12]-r0+s0
				if fq < now-r0+1 || uq > now {
					continue
				}
			}
			for _, hnd := range []int{1, 3} {
				var res []interface{}
				msg := ""
				if hnd == 1 {
					o := doFetch(wdb, wt.ArchiveIDBest, uint32(mp.B+fq), uint32(mp.B+uq), uint32(mp.B+now))
					msg = o.Msg
					if o.Kind == "ts" {
						vals := make([][]int64, len(o.Vals))
						for i, v := range o.Vals {
							vals[i] = mp.modelV(v)
						}
						res = []interface{}{"ts", int64(o.From) - mp.B, int64(o.Until) - mp.B, int64(o.Step), vals}
					} else {
						res = []interface{}{o.Kind}
					}
				} else if g != nil {
					gwMu.Lock()
					gw.Now = func() time.Time { return time.Unix(mp.B+now, 0) }
					ts, err := func() (ts *gw.TimeSeries, err error) {
						defer func() {
							if rc := recover(); rc != nil {
								err = fmt.Errorf("panic: %v", rc)
							}
						}()
						return g.w.Fetch(int(mp.B+fq), int(mp.B+uq))
					}()
					gwMu.Unlock()
					if err != nil {
						res, msg = []interface{}{"err"}, err.Error()
					} else if ts == nil {
						res = []interface{}{"nil"}
					} else {
						vs := ts.Values()
						vals := make([][]int64, len(vs))
						for i, v := range vs {
							vals[i] = mp.modelV(v)
						}
						res = []interface{}{"ts", int64(ts.FromTime()) - mp.B, int64(ts.UntilTime()) - mp.B, int64(ts.Step()), vals}
					}
				} else {
					res, msg = []interface{}{"err"}, "reference reader cannot open its own file"
				}
				emit(map[string]interface{}{"ev": "fetch", "h": hnd, "a": 0, "f": fq, "u": uq, "now": now, "res": res, "msg": msg})
			}
		}
		if g != nil {
			g.Close()
		}
		wdb.Close()
		os.Remove(path)

		// ---- phase 2: whispertool creates and writes; the bytes are parsed independently; both readers again
		path2 := filepath.Join(dir, fmt.Sprintf("w%d.wsp", id))
		now2 := maxRet + 2*lay[len(lay)-1].Step + 1000 + rnd.Int63n(5000)
		var copts []wt.Option
		if rnd.Intn(3) == 0 {
			// re-creation in place (public option): a longer, zero-filled file already sits at the path; what whispertool
			// leaves must still have exactly the length the new header implies
			var total int64
			for _, a := range lay {
				total += a.N
			}
			if err := ioutil.WriteFile(path2, make([]byte, 16+12*int64(k)+12*total+int64(1+rnd.Intn(9000))), 0644); err != nil {
				return 2
			}
			copts = append(copts, wt.WithOpenFileFlag(os.O_RDWR|os.O_CREATE))
		}
		w2, err := wt.Create(path2, archiveInfoList(cfg), methodOf(method), xffFloat(cfg.Xff), copts...)
		if err != nil {
			fmt.Fprintln(os.Stderr, "create:", err)
			return 2
		}
		steps2 := 3 + rnd.Intn(10)
		jump2 := -1
		if mp.B <= 1600000000 && rnd.Intn(3) == 0 {
			jump2 = 1 + rnd.Intn(steps2-1)
		}
		for s2 := 0; s2 < steps2; s2++ {
			if s2 == jump2 {
				now2 += 180000000 + rnd.Int63n(200000000)
			}
			sel := rnd.Intn(k + 1)
			ret := maxRet
			if sel > 0 {
				ret = lay[sel-1].Step * lay[sel-1].N
			}
			m2 := 1 + rnd.Intn(12)
			pts := make([]wt.Point, m2)
			for i := range pts {
				pts[i] = wt.Point{Time: wt.Timestamp(mp.B + now2 - rnd.Int63n(ret)), Value: wt.Value(float64((rnd.Int63n(41) - 20) * unit))}
			}
			if rnd.Intn(3) == 0 {
				pts = append(pts, wt.Point{Time: wt.Timestamp(mp.B + now2 + 1 + rnd.Int63n(lay[0].Step*lay[0].N)), Value: wt.Value(float64((rnd.Int63n(41) - 20) * unit))})
			}
			w2.UpdatePointsForArchive(pts, goArchive(sel), wt.Timestamp(mp.B+now2))
		}
		w2.Sync()
		buf2, _ := ioutil.ReadFile(path2)
		h2, rings2, err2 := decodeFile(buf2)
		ev2 := map[string]interface{}{"ev": "create", "cfg": cfg, "B": mp.B, "scale": 1, "trace": id, "writer": "whispertool"}
		if err2 != nil {
			ev2["post"] = [][][]interface{}{}
			ev2["hdr_ok"] = false
			ev2["format_error"] = err2.Error()
			emit(ev2)
			w2.Close()
			os.Remove(path2)
			continue
		}
		ev2["post"] = mp.sparseOf(rings2)
		ev2["hdr_ok"] = headerMatches(h2, cfg) == nil
		place := ""
		for a := range rings2 {
			if d := placementMismatch(rings2[a], lay[a]); d != "" {
				place = fmt.Sprintf("archive %d: %s", a, d)
			}
		}
		ev2["placement_ok"] = place == ""
		ev2["placement"] = place
		emit(ev2)
		g2 := gwOpen(path2, uint32(mp.B+now2))
		if g2 != nil {
			if d := g2.metaMismatch(cfg); d != "" {
				emit(map[string]interface{}{"ev": "fetch", "h": 3, "a": 0, "f": 0, "u": 0, "now": now2, "res": []interface{}{"reference-metadata-differs"}, "msg": d})
			}
		}
		for q := 0; q < 10; q++ {
			span := maxRet - maxStep
			if span <= 0 {
				break
			}
			fq := now2 - maxStep - rnd.Int63n(span)
			uq := fq + maxStep + rnd.Int63n(now2-fq-maxStep+1)
			o := doFetch(w2, wt.ArchiveIDBest, uint32(mp.B+fq), uint32(mp.B+uq), uint32(mp.B+now2))
			var res []interface{}
			if o.Kind == "ts" {
				vals := make([][]int64, len(o.Vals))
				for i, v := range o.Vals {
					vals[i] = mp.modelV(v)
				}
				res = []interface{}{"ts", int64(o.From) - mp.B, int64(o.Until) - mp.B, int64(o.Step), vals}
			} else {
				res = []interface{}{o.Kind}
			}
			emit(map[string]interface{}{"ev": "fetch", "h": 1, "a": 0, "f": fq, "u": uq, "now": now2, "res": res, "msg": o.Msg})
			if g2 != nil {
				gwMu.Lock()
				gw.Now = func() time.Time { return time.Unix(mp.B+now2, 0) }
				ts, err := func() (ts *gw.TimeSeries, err error) {
					defer func() {
						if rc := recover(); rc != nil {
							err = fmt.Errorf("panic: %v", rc)
						}
					}()
					return g2.w.Fetch(int(mp.B+fq), int(mp.B+uq))
				}()
				gwMu.Unlock()
				var res3 []interface{}
				msg := ""
				if err != nil {
					res3, msg = []interface{}{"err"}, err.Error()
				} else if ts == nil {
					res3 = []interface{}{"nil"}
				} else {
					vs := ts.Values()
					vals := make([][]int64, len(vs))
					for i, v := range vs {
						vals[i] = mp.modelV(v)
					}
					res3 = []interface{}{"ts", int64(ts.FromTime()) - mp.B, int64(ts.UntilTime()) - mp.B, int64(ts.Step()), vals}
				}
				emit(map[string]interface{}{"ev": "fetch", "h": 3, "a": 0, "f": fq, "u": uq, "now": now2, "res": res3, "msg": msg})
			}
		}
		if g2 != nil {
			g2.Close()
		}
		w2.Close()
		os.Remove(path2)

		// ---- phase 3: files made by the commands (copy / sum-copy creating their destination, generate): every file whispertool
		// writes is a classic file, also when there was nothing to copy or nothing to fill
		if id%2 == 0 {
			cdir := filepath.Join(dir, fmt.Sprintf("cli%d", id))
			createFile(filepath.Join(cdir, "src", "item1", "s1.wsp"), cfg)
			cmd.VerifNow = func() wt.Timestamp { return wt.Timestamp(mp.B + now2) }
			type made struct {
				what string
				path string
				c    cmd.Command
			}
			ail := func() []wt.ArchiveInfo { return archiveInfoList(cfg) }
			list := []made{
				{"copy of an empty source into a new file", filepath.Join(cdir, "dst", "item1", "d1.wsp"),
					&cmd.CopyCommand{SrcBase: filepath.Join(cdir, "src"), SrcRelPath: "item1/s1.wsp", DestBase: filepath.Join(cdir, "dst"), DestRelPath: "item1/d1.wsp",
						AggregationMethod: methodOf(method), XFilesFactor: xffFloat(cfg.Xff), ArchiveInfoList: ail(), ArchiveID: cmd.ArchiveIDAll}},
				{"sum-copy of an empty source into a new file", filepath.Join(cdir, "dst", "item1", "d2.wsp"),
					&cmd.SumCopyCommand{SrcBase: filepath.Join(cdir, "src"), DestBase: filepath.Join(cdir, "dst"), ItemPattern: "item1", SrcPattern: "s*.wsp", DestRelPath: "d2.wsp",
						AggregationMethod: methodOf(method), XFilesFactor: xffFloat(cfg.Xff), ArchiveInfoList: ail(), ArchiveID: cmd.ArchiveIDAll}},
				{"generate without fill", filepath.Join(cdir, "g1.wsp"),
					&cmd.GenerateCommand{Dest: filepath.Join(cdir, "g1.wsp"), Perm: 0644, AggregationMethod: methodOf(method), XFilesFactor: xffFloat(cfg.Xff), ArchiveInfoList: ail(), Fill: false}},
				{"generate with fill", filepath.Join(cdir, "g2.wsp"),
					&cmd.GenerateCommand{Dest: filepath.Join(cdir, "g2.wsp"), Perm: 0644, AggregationMethod: methodOf(method), XFilesFactor: xffFloat(cfg.Xff), ArchiveInfoList: ail(), RandMax: 5, Fill: true}},
			}
			for _, m := range list {
				var cerr error
				func() {
					defer func() {
						if rc := recover(); rc != nil {
							cerr = fmt.Errorf("panic: %v", rc)
						}
					}()
					cerr = m.c.Execute()
				}()
				if cerr != nil {
					continue // a failing command is C16's matter
				}
				buf3, _ := ioutil.ReadFile(m.path)
				h3, rings3, err3 := decodeFile(buf3)
				ev3 := map[string]interface{}{"ev": "create", "cfg": cfg, "B": mp.B, "scale": 1, "trace": id, "writer": "whispertool: " + m.what}
				if err3 != nil {
					ev3["post"] = [][][]interface{}{}
					ev3["hdr_ok"] = false
					ev3["format_error"] = err3.Error()
					emit(ev3)
					continue
				}
				ev3["post"] = mp.sparseOf(rings3)
				ev3["hdr_ok"] = headerMatches(h3, cfg) == nil
				emit(ev3)
				if g3 := gwOpen(m.path, uint32(mp.B+now2)); g3 == nil {
					emit(map[string]interface{}{"ev": "fetch", "h": 3, "a": 0, "f": 0, "u": 0, "now": now2, "res": []interface{}{"reference-cannot-open"}, "msg": m.what})
				} else {
					if d := g3.metaMismatch(cfg); d != "" {
						emit(map[string]interface{}{"ev": "fetch", "h": 3, "a": 0, "f": 0, "u": 0, "now": now2, "res": []interface{}{"reference-metadata-differs"}, "msg": d})
					}
					g3.Close()
				}
			}
			cmd.VerifNow = nil
			os.RemoveAll(cdir)
		}
	}
	return 0
}

// ---------------------------------------------------------------------------
// C05 (CLI part): a copy / sum-copy that fails BEFORE its final Sync (the text output device is
// full and the listing exceeds the 4 KiB buffer) leaves an existing destination byte-identical.
// ---------------------------------------------------------------------------

// c05-cli <seed> <count> <result-json>
func runC05CLI(args []string) int {
	var seed int64
	var n int
	fmt.Sscan(args[0], &seed)
	fmt.Sscan(args[1], &n)
	if _, err := os.Stat("/dev/full"); err != nil {
		ioutil.WriteFile(args[2], []byte(`{"executions":0,"violations":[],"skipped":"no /dev/full"}`), 0644)
		return 0
	}
	root := scratchDir()
	defer os.RemoveAll(root)
	var viols []violation
	execs := 0
	var samples []interface{}
	for id := 0; id < n; id++ {
		rnd := rand.New(rand.NewSource(seed*613 + int64(id)))
		lay := [][]MArch{{{1, 400}, {20, 400}}, {{2, 700}}, {{1, 800}}}[rnd.Intn(3)]
		cfg := MCfg{Layout: lay, Method: "sum", Xff: [2]int64{0, 1}}
		k := len(lay)
		maxRet := lay[k-1].Step * lay[k-1].N
		mp := Mapping{B: drvBases[rnd.Intn(len(drvBases))], Scale: 1}
		mp.B -= mp.B % lcmAll(lay)
		now := maxRet + 2*lay[len(lay)-1].Step + 1000 + rnd.Int63n(1000)
		cmd.VerifNow = func() wt.Timestamp { return wt.Timestamp(mp.B + now) }
		base := filepath.Join(root, fmt.Sprintf("c%d", id))
		src := filepath.Join(base, "src", "item1", "s1.wsp")
		dst := filepath.Join(base, "dst", "item1", "d.wsp")
		createFile(src, cfg)
		createFile(dst, cfg)
		// several hundred differing points: the listing is far larger than the 4 KiB write buffer
		for _, p := range []string{src, dst} {
			db, _ := wt.Open(p)
			pts := make([]wt.Point, 0, 400)
			for i := int64(0); i < 380; i++ {
				pts = append(pts, wt.Point{Time: wt.Timestamp(mp.B + now - i*lay[0].Step), Value: wt.Value(rnd.Intn(1000))})
			}
			db.UpdatePointsForArchive(pts, 0, wt.Timestamp(mp.B+now))
			db.Sync()
			db.Close()
		}
		// an existing destination the library refuses to open (cut after the header, zero-filled as Create leaves it before
		// its first Sync, or somebody else's file at that path): the command fails, the file must still be there, untouched
		textOut := "/dev/full"
		damaged := ""
		if id%4 == 1 {
			full, _ := ioutil.ReadFile(dst)
			switch rnd.Intn(3) {
			case 0:
				damaged = "cut after the header"
				ioutil.WriteFile(dst, full[:16+12*k], 0644)
			case 1:
				damaged = "all zero"
				ioutil.WriteFile(dst, make([]byte, len(full)), 0644)
			default:
				damaged = "a foreign file"
				ioutil.WriteFile(dst, []byte("this is not a whisper file\n"), 0644)
			}
			textOut = ""
		}
		before, _ := ioutil.ReadFile(dst)
		var c cmd.Command
		name := "copy"
		if id%3 == 2 {
			// generate never touches an existing file (different layout, failing text output)
			name = "generate"
			glay := []wt.ArchiveInfo{wt.NewArchiveInfo(1, uint32(50+rnd.Intn(900)))}
			c = &cmd.GenerateCommand{Dest: dst, Perm: 0644, AggregationMethod: wt.Sum, ArchiveInfoList: glay, RandMax: 9, Fill: true, TextOut: textOut}
		} else if id%2 == 0 {
			c = &cmd.CopyCommand{SrcBase: filepath.Join(base, "src"), SrcRelPath: "item1/s1.wsp", DestBase: filepath.Join(base, "dst"), DestRelPath: "item1/d.wsp",
				AggregationMethod: wt.Sum, ArchiveInfoList: archiveInfoList(cfg), ArchiveID: cmd.ArchiveIDAll, TextOut: textOut}
		} else {
			name = "sum-copy"
			c = &cmd.SumCopyCommand{SrcBase: filepath.Join(base, "src"), DestBase: filepath.Join(base, "dst"), ItemPattern: "item1", SrcPattern: "s*.wsp", DestRelPath: "d.wsp",
				AggregationMethod: wt.Sum, ArchiveInfoList: archiveInfoList(cfg), ArchiveID: cmd.ArchiveIDAll, TextOut: textOut}
		}
		var class, msg string
		func() {
			defer func() {
				if r := recover(); r != nil {
					class, msg = "panic", fmt.Sprint(r)
				}
			}()
			class, msg = classify(c.Execute())
		}()
		execs++
		after, _ := ioutil.ReadFile(dst)
		desc := map[string]interface{}{"cmd": name, "layout": lay, "case": id, "outcome": class}
		if damaged != "" {
			desc["destination"] = damaged
		}
		if len(samples) < 2 {
			samples = append(samples, desc)
		}
		if class == "ok" {
			continue // the command managed to finish: nothing to check here (C16 covers success-with-effect)
		}
		if !bytes.Equal(before, after) {
			viols = append(viols, violation{Prop: "C05", What: name + " failed before its final Sync but changed the destination file",
				Detail: fmt.Sprintf("outcome %s (%s); %d bytes differ", class, msg, diffBytes(before, after)), Line: desc, B: mp.B, Scale: 1})
		}
		os.RemoveAll(base)
	}
	cmd.VerifNow = nil
	res := map[string]interface{}{"executions": execs, "violations": append([]violation{}, viols...), "samples": samples}
	b, _ := json.MarshalIndent(res, "", " ")
	ioutil.WriteFile(args[2], b, 0644)
	return 0
}

func diffBytes(a, b []byte) int {
	n := 0
	for i := range a {
		if i >= len(b) || a[i] != b[i] {
			n++
		}
	}
	return n + abs(len(a)-len(b))
}

func abs(x int) int {
	if x < 0 {
		return -x
	}
	return x
}
