package main

import (
	"encoding/json"
	"fmt"
	"io/ioutil"
	"math"
	"math/rand"
	"os"
	"os/exec"
	"os/signal"
	"path/filepath"
	"sort"
	"sync"
	"syscall"
	"time"

	wt "github.com/hnakamur/whispertool"
)

// ---------------------------------------------------------------------------
// C13: free-running sessions (goroutines or child processes) on one file.
// Events are appended to a shared O_APPEND log: its order is the real-time
// order of the append syscalls. Validated by spec/Trace_File.tla.
// ---------------------------------------------------------------------------

const sessSlots = 800 // 3 pages: slots straddle 8192 and 12288
const sessNow = 1600000000

type evLog struct {
	f *os.File
}

func openEvLog(path string) *evLog {
	f, err := os.OpenFile(path, os.O_WRONLY|os.O_APPEND|os.O_CREATE, 0644)
	if err != nil {
		panic(err)
	}
	return &evLog{f}
}

func (l *evLog) emit(m map[string]interface{}) {
	b, _ := json.Marshal(m)
	b = append(b, '\n')
	if _, err := l.f.Write(b); err != nil { // one write(2) per event
		panic(err)
	}
}

func distinctVals(pts wt.Points) []int64 {
	set := map[int64]bool{}
	for _, p := range pts {
		v := float64(p.Value)
		if p.Time == 0 {
			v = 0
		}
		if math.IsNaN(v) {
			set[-1] = true
		} else {
			set[int64(v)] = true
		}
	}
	out := []int64{}
	for k := range set {
		out = append(out, k)
	}
	sort.Slice(out, func(i, j int) bool { return out[i] < out[j] })
	return out
}

// one process/goroutine: m sessions as writer or reader
func runSessions(path, id, role string, m int, lg *evLog, seed int64) error {
	rnd := rand.New(rand.NewSource(seed))
	for s := 0; s < m; s++ {
		time.Sleep(time.Duration(rnd.Intn(800)) * time.Microsecond)
		var db *wt.Whisper
		var err error
		if role == "creator" {
			if s > 0 {
				role = "writer"
			}
		}
		if role == "creator" {
			// the session that creates the file (default options: O_CREATE|O_EXCL + exclusive flock): others must wait for it
			db, err = wt.Create(path, []wt.ArchiveInfo{wt.NewArchiveInfo(1, sessSlots)}, wt.Sum, 0)
			if err != nil {
				return fmt.Errorf("%s: create: %v", id, err)
			}
		} else {
			for try := 0; ; try++ {
				db, err = wt.Open(path) // default options: blocking exclusive flock
				if err != nil && os.IsNotExist(err) && try < 20000 {
					time.Sleep(100 * time.Microsecond) // the creator has not created the file yet
					continue
				}
				break
			}
			if err != nil {
				// the file exists (some handle created it): an Open that fails was not serialised behind that handle
				lg.emit(map[string]interface{}{"ev": "openerr", "p": id, "err": err.Error()})
				s--
				time.Sleep(300 * time.Microsecond)
				continue
			}
		}
		if role == "creator" {
			lg.emit(map[string]interface{}{"ev": "opendone", "p": id, "created": true})
		} else {
			lg.emit(map[string]interface{}{"ev": "opendone", "p": id})
		}
		if role == "writer" || role == "creator" {
			if role == "creator" {
				time.Sleep(time.Duration(500+rnd.Intn(1500)) * time.Microsecond) // hold the fresh, still empty file for a while
			}
			pts, err := db.GetAllRawUnsortedPoints(0)
			if err != nil {
				return err
			}
			vals := distinctVals(pts)
			gen := int64(-99)
			if len(vals) == 1 {
				gen = vals[0]
			}
			lg.emit(map[string]interface{}{"ev": "load", "p": id, "v": gen})
			time.Sleep(time.Duration(200+rnd.Intn(1500)) * time.Microsecond) // widen the read-modify-write window
			batch := make([]wt.Point, sessSlots)
			for i := range batch {
				batch[i] = wt.Point{Time: wt.Timestamp(sessNow - sessSlots + 1 + i), Value: wt.Value(gen + 1)}
			}
			if err := db.UpdatePointsForArchive(batch, 0, sessNow); err != nil {
				return err
			}
			if err := db.Sync(); err != nil {
				return err
			}
			lg.emit(map[string]interface{}{"ev": "synced", "p": id, "v": gen + 1})
		} else {
			// K concurrent fetch threads on the one handle, each reading the whole multi-page archive
			var wg sync.WaitGroup
			res := make([][]int64, 2)
			for t := 0; t < 2; t++ {
				wg.Add(1)
				go func(t int) {
					defer wg.Done()
					pts, err := db.GetAllRawUnsortedPoints(0)
					if err == nil {
						res[t] = distinctVals(pts)
					}
				}(t)
			}
			wg.Wait()
			for t := 0; t < 2; t++ {
				lg.emit(map[string]interface{}{"ev": "seen", "p": id, "t": t, "vals": res[t]})
			}
			time.Sleep(time.Duration(rnd.Intn(500)) * time.Microsecond)
		}
		lg.emit(map[string]interface{}{"ev": "closestart", "p": id})
		db.Close()
	}
	return nil
}

func runFileSession(args []string) int {
	var m int
	var seed int64
	fmt.Sscan(args[3], &m)
	fmt.Sscan(args[5], &seed)
	lg := openEvLog(args[4])
	if err := runSessions(args[0], args[1], args[2], m, lg, seed); err != nil {
		fmt.Fprintln(os.Stderr, err)
		return 2
	}
	return 0
}

func lockProbe(path string) string {
	f, err := os.OpenFile(path, os.O_RDWR, 0)
	if err != nil {
		return "unopenable:" + err.Error()
	}
	defer f.Close()
	if err := syscall.Flock(int(f.Fd()), syscall.LOCK_EX|syscall.LOCK_NB); err != nil {
		return "locked"
	}
	syscall.Flock(int(f.Fd()), syscall.LOCK_UN)
	return "free"
}

// drive-file <seed> <rounds> <out.ndjson> : rounds of {goroutine mode, process mode} + failed-open probes
func runDriveFile(args []string) int {
	var seed int64
	var rounds int
	fmt.Sscan(args[0], &seed)
	fmt.Sscan(args[1], &rounds)
	out := args[2]
	os.Remove(out)
	dir := scratchDir()
	defer os.RemoveAll(dir)
	self, _ := os.Executable()
	lg := openEvLog(out)
	ids := []struct{ id, role string }{{"w1", "writer"}, {"w2", "writer"}, {"w3", "writer"}, {"r1", "reader"}, {"r2", "reader"}}
	for r := 0; r < rounds; r++ {
		path := filepath.Join(dir, fmt.Sprintf("s%d.wsp", r))
		ids := ids
		if r%4 >= 2 {
			// the file does not exist yet: the first session of w1 creates it while the others are already trying to open it
			ids = append([]struct{ id, role string }{{"w1", "creator"}}, ids[1:]...)
		} else {
			db, err := wt.Create(path, []wt.ArchiveInfo{wt.NewArchiveInfo(1, sessSlots)}, wt.Sum, 0)
			if err != nil {
				fmt.Fprintln(os.Stderr, err)
				return 2
			}
			// generation 0 on every slot
			batch := make([]wt.Point, sessSlots)
			for i := range batch {
				batch[i] = wt.Point{Time: wt.Timestamp(sessNow - sessSlots + 1 + i), Value: 0}
			}
			db.UpdatePointsForArchive(batch, 0, sessNow)
			db.Sync()
			db.Close()
		}
		rs := map[string]interface{}{"ev": "reset", "round": r, "mode": []string{"goroutines", "processes"}[r%2]}
		if r%4 >= 2 {
			rs["nofile"] = true
		}
		lg.emit(rs)
		m := 4
		if r%2 == 0 {
			var wg sync.WaitGroup
			errs := make([]error, len(ids))
			for i, x := range ids {
				wg.Add(1)
				go func(i int, id, role string) {
					defer wg.Done()
					errs[i] = runSessions(path, id, role, m, lg, seed*100+int64(r*10+i))
				}(i, x.id, x.role)
			}
			wg.Wait()
			for _, e := range errs {
				if e != nil {
					fmt.Fprintln(os.Stderr, e)
					return 2
				}
			}
		} else {
			var cmds []*exec.Cmd
			for i, x := range ids {
				c := exec.Command(self, "file-session", path, x.id, x.role, fmt.Sprint(m), out, fmt.Sprint(seed*100+int64(r*10+i)))
				c.Stderr = os.Stderr
				if err := c.Start(); err != nil {
					fmt.Fprintln(os.Stderr, err)
					return 2
				}
				cmds = append(cmds, c)
			}
			for _, c := range cmds {
				if err := c.Wait(); err != nil {
					fmt.Fprintln(os.Stderr, "session process failed:", err)
					return 2
				}
			}
		}
		os.Remove(path)
	}
	// every way an Open can fail after the descriptor was obtained: the path must not stay locked
	lg.emit(map[string]interface{}{"ev": "reset", "round": "failed-open"})
	rnd := rand.New(rand.NewSource(seed))
	valid := validFileBytes(rnd)
	bad := map[string][]byte{
		"6 bytes":            valid[:6],
		"15 bytes":           valid[:15],
		"header cut":         valid[:20],
		"empty":              {},
		"invalid method":     append([]byte{0, 0, 0, 9}, valid[4:]...),
		"zero archives":      append(append(append([]byte{}, valid[:12]...), 0, 0, 0, 0), valid[16:]...),
		"body truncated":     valid[:len(valid)-12],
		"xff NaN":            append(append(append([]byte{}, valid[:8]...), 0x7f, 0xc0, 0, 0), valid[12:]...),
		"archive count huge": append(append(append([]byte{}, valid[:12]...), 0x15, 0x55, 0x55, 0x56), valid[16:]...),
	}
	names := []string{}
	for k := range bad {
		names = append(names, k)
	}
	sort.Strings(names)
	for i, name := range names {
		p := filepath.Join(dir, fmt.Sprintf("bad%d.wsp", i))
		ioutil.WriteFile(p, bad[name], 0644)
		db, err := wt.Open(p)
		if err == nil {
			db.Close()
			lg.emit(map[string]interface{}{"ev": "openfail", "p": "x1", "what": name, "probe": "free", "note": "Open accepted this file"})
			continue
		}
		lg.emit(map[string]interface{}{"ev": "openfail", "p": "x1", "what": name, "probe": lockProbe(p), "err": err.Error()})
	}
	// Create failing after the descriptor was obtained: the file size limit makes Truncate fail
	c := exec.Command(self, "create-fail", filepath.Join(dir, "cf.wsp"))
	ob, _ := c.Output()
	var cf map[string]interface{}
	if json.Unmarshal(ob, &cf) == nil && cf["failed"] == true {
		lg.emit(map[string]interface{}{"ev": "openfail", "p": "x1", "what": "Create: Truncate fails (RLIMIT_FSIZE)", "probe": cf["probe"], "err": cf["err"]})
	}
	// the lock must not outlive the handle through a child process started while the handle was open (the descriptor
	// is close-on-exec): Open / Create, start a child that just sleeps, Close, probe at once
	for i, how := range []string{"Open", "Create"} {
		p := filepath.Join(dir, fmt.Sprintf("exec%d.wsp", i))
		var db *wt.Whisper
		var err error
		if how == "Open" {
			if db, err = wt.Create(p, []wt.ArchiveInfo{wt.NewArchiveInfo(1, 10)}, wt.Sum, 0); err == nil {
				db.Sync()
				db.Close()
				db, err = wt.Open(p)
			}
		} else {
			db, err = wt.Create(p, []wt.ArchiveInfo{wt.NewArchiveInfo(1, 10)}, wt.Sum, 0)
		}
		if err != nil {
			fmt.Fprintln(os.Stderr, "exec probe:", err)
			return 2
		}
		child := exec.Command("sleep", "2")
		if err := child.Start(); err != nil {
			db.Close()
			continue // no such program here: nothing to observe
		}
		db.Sync()
		db.Close()
		probe := lockProbe(p)
		child.Process.Kill()
		child.Wait()
		lg.emit(map[string]interface{}{"ev": "openfail", "p": "x1", "what": "lock after Close of a handle from " + how + " while a child process started during its life is still running", "probe": probe})
	}
	return 0
}

// create-fail <path>: in a child so that the file size limit does not affect the harness
func runCreateFail(args []string) int {
	signal.Ignore(syscall.SIGXFSZ)
	lim := syscall.Rlimit{Cur: 4096, Max: 4096}
	if err := syscall.Setrlimit(syscall.RLIMIT_FSIZE, &lim); err != nil {
		return 2
	}
	db, err := wt.Create(args[0], []wt.ArchiveInfo{wt.NewArchiveInfo(1, 100000)}, wt.Sum, 0)
	res := map[string]interface{}{"failed": err != nil}
	if err != nil {
		res["err"] = err.Error()
		res["probe"] = lockProbe(args[0])
	} else {
		db.Close()
	}
	b, _ := json.Marshal(res)
	fmt.Println(string(b))
	return 0
}
