package main

import (
	"bufio"
	"encoding/binary"
	"encoding/json"
	"fmt"
	"math"
	"os"
	"path/filepath"
	"runtime"
	"sort"
	"sync"
	"syscall"
	"time"

	wt "github.com/hnakamur/whispertool"
)

// ---------------------------------------------------------------------------
// spec -> code for WhisperFile (C13, page level of C05): behaviours of
// spec/MC_FileReplay.tla replayed as deterministic schedules.  Every model
// process is a goroutine executing commands handed to it by the scheduler;
// inside Open the goroutine stops at the yield hook's two points (descriptor
// obtained / lock taken), so OpenFd, Acquire and ReadHeader are separate,
// individually scheduled steps exactly as in the specification.
//
//   model page pg  <->  the slots of the one archive whose 12 bytes lie
//                       entirely inside the 4 KiB file page pg
//   generation g   <->  every slot of the group holds value g
// ---------------------------------------------------------------------------

const schedPage = 4096

type schedAct struct {
	Name string `json:"name"`
	P    string `json:"p"`
	Pg   int    `json:"pg"`
	T    string `json:"t"`
}

type schedState struct {
	Disk    map[string]int64            `json:"disk"`
	Lock    string                      `json:"lock"`
	Pc      map[string]string           `json:"pc"`
	Cache   map[string]map[string]int64 `json:"cache"`
	Val     map[string]int64            `json:"val"`
	HdrOk   bool                        `json:"hdrOk"`
	Commits int64                       `json:"commits"`
	Exists  bool                        `json:"exists"`
	Mode    map[string]string           `json:"mode"`
	Dmg     string                      `json:"dmg"`
}

type schedStep struct {
	Act  schedAct   `json:"act"`
	Post schedState `json:"post"`
}

type schedBehaviour struct {
	ID    int         `json:"id"`
	Init  schedState  `json:"init"`
	Steps []schedStep `json:"steps"`
}

type schedCmd struct {
	op   string
	pg   int
	val  int64
	resp chan schedResp
}

type schedResp struct {
	vals []int64
	err  error
}

type schedProc struct {
	name     string
	link     string
	cmds     chan schedCmd
	arrive   chan string // gate points reached inside Open
	release  chan struct{}
	openDone chan error
	db       *wt.Whisper
	old      *wt.Whisper // the handle of the previous session, closed
	val      int64
	early    bool // released into flock ahead of the model's Acquire (negative test)
	atLocked bool // has arrived at the "locked" gate
	inOpen   bool
	lastErr  error
}

type schedViolation struct {
	What      string          `json:"what"`
	Detail    string          `json:"detail"`
	Behaviour json.RawMessage `json:"behaviour"`
	Step      int             `json:"step"`
}

type schedResult struct {
	Behaviours int              `json:"behaviours"`
	Steps      int              `json:"steps"`
	Compared   int              `json:"compared"`
	Negative   int              `json:"negative_lock_tests"`
	Skipped    int              `json:"skipped"`
	ByAction   map[string]int   `json:"by_action"`
	Violations []schedViolation `json:"violations"`
	Samples    []string         `json:"samples"`
}

type schedEnv struct {
	prop    string
	npages  int
	nslots  int
	t0      int64
	now     wt.Timestamp
	path    string
	procs   map[string]*schedProc
	gateMu  sync.Mutex
	byLink  map[string]*schedProc
	res     *schedResult
	syncBad bool // a Sync did not produce what the specification says: value comparisons of C13 are suspended (C05's matter)
	created bool // the file of this behaviour is made by whispertool's Create: never written slots are generation 0
	hdrGood []byte
}

func schedGroups(npages int) (nslots int, groups [][2]int) {
	nslots = (schedPage*npages - 28) / 12
	for pg := 0; pg < npages; pg++ {
		lo, hi := -1, -1
		for i := 0; i < nslots; i++ {
			b := 28 + 12*i
			if b >= schedPage*pg && b+12 <= schedPage*(pg+1) {
				if lo < 0 {
					lo = i
				}
				hi = i
			}
		}
		groups = append(groups, [2]int{lo, hi})
	}
	return
}

// the yield hook: goroutines of registered processes stop here until the scheduler lets them go on
func (e *schedEnv) hook(point, filename string) {
	e.gateMu.Lock()
	p := e.byLink[filename]
	e.gateMu.Unlock()
	if p == nil {
		return
	}
	p.arrive <- point
	<-p.release
}

func (e *schedEnv) procLoop(p *schedProc) {
	for c := range p.cmds {
		switch c.op {
		case "open", "create":
			create := c.op == "create"
			go func() {
				var db *wt.Whisper
				var err error
				if create {
					// default options: O_CREATE|O_EXCL + exclusive flock (a symbolic link cannot be created through)
					db, err = wt.Create(e.path, []wt.ArchiveInfo{wt.NewArchiveInfo(1, uint32(e.nslots))}, wt.Sum, 0)
				} else {
					db, err = wt.Open(p.link)
				}
				if err == nil {
					p.db = db
				}
				p.openDone <- err
			}()
			c.resp <- schedResp{}
		case "base":
			// fixes the slot addressing of a freshly created file: the first write decides which interval slot 0 holds
			c.resp <- schedResp{err: p.db.UpdatePointForArchive(0, wt.Timestamp(e.t0), 0, e.now)}
		case "fetch":
			c.resp <- e.fetchGroup(p, c.pg)
		case "stamp":
			_, groups := schedGroups(e.npages)
			g := groups[c.pg]
			pts := make([]wt.Point, 0, g[1]-g[0]+1)
			for i := g[0]; i <= g[1]; i++ {
				pts = append(pts, wt.Point{Time: wt.Timestamp(e.t0 + int64(i)), Value: wt.Value(c.val)})
			}
			c.resp <- schedResp{err: p.db.UpdatePointsForArchive(pts, 0, e.now)}
		case "sync":
			c.resp <- schedResp{err: p.db.Sync()}
		case "close":
			err := p.db.Close()
			p.old, p.db = p.db, nil
			c.resp <- schedResp{err: err}
		case "close-again":
			if p.old != nil {
				p.old.Close() // an error is what is expected; it must have no effect on anybody
			}
			c.resp <- schedResp{}
		}
	}
}

func (e *schedEnv) fetchGroup(p *schedProc, pg int) schedResp {
	_, groups := schedGroups(e.npages)
	g := groups[pg]
	// keep two slots of margin so that only this page is touched
	from := wt.Timestamp(e.t0 + int64(g[0]) + 2)
	until := wt.Timestamp(e.t0 + int64(g[1]) - 2)
	ts, err := p.db.FetchFromArchive(0, from, until, e.now)
	if err != nil {
		return schedResp{err: err}
	}
	set := map[int64]bool{}
	for _, pt := range ts.Points() {
		v := float64(pt.Value)
		if math.IsNaN(v) {
			if e.created {
				set[0] = true // never written
			} else {
				set[-7] = true
			}
		} else {
			set[int64(v)] = true
		}
	}
	out := []int64{}
	for k := range set {
		out = append(out, k)
	}
	sort.Slice(out, func(i, j int) bool { return out[i] < out[j] })
	return schedResp{vals: out}
}

func (e *schedEnv) call(p *schedProc, op string, pg int, val int64) schedResp {
	c := schedCmd{op: op, pg: pg, val: val, resp: make(chan schedResp, 1)}
	p.cmds <- c
	select {
	case r := <-c.resp:
		return r
	case <-time.After(60 * time.Second):
		panic("scheduler: command " + op + " of " + p.name + " did not return")
	}
}

// raw, lock-free view of the file: the generation of every page group
func (e *schedEnv) diskView() ([]string, error) {
	_, groups := schedGroups(e.npages)
	out := make([]string, e.npages)
	buf, err := os.ReadFile(e.path)
	if err != nil {
		if os.IsNotExist(err) {
			for pg := range out {
				out[pg] = fmt.Sprint([]int64{0})
			}
			return out, nil
		}
		return nil, err
	}
	if len(buf) == 0 {
		// created, not yet truncated to its length
		for pg := range out {
			out[pg] = fmt.Sprint([]int64{0})
		}
		return out, nil
	}
	for pg, g := range groups {
		set := map[int64]bool{}
		for i := g[0]; i <= g[1]; i++ {
			off := 28 + 12*i
			if off+12 > len(buf) {
				if off+11 == len(buf) && i == e.nslots-1 {
					continue // damage "short": the last byte is cut off
				}
				return nil, fmt.Errorf("file has %d bytes", len(buf))
			}
			tm := binary.BigEndian.Uint32(buf[off:])
			v := math.Float64frombits(binary.BigEndian.Uint64(buf[off+4:]))
			if tm == 0 && v == 0 && e.created {
				set[0] = true // never written
			} else if int64(tm) != e.t0+int64(i) {
				set[-1000000-int64(i)] = true // a slot holding another interval
			} else if math.IsNaN(v) {
				set[-7] = true
			} else {
				set[int64(v)] = true
			}
		}
		ks := []int64{}
		for k := range set {
			ks = append(ks, k)
		}
		sort.Slice(ks, func(i, j int) bool { return ks[i] < ks[j] })
		out[pg] = fmt.Sprint(ks)
	}
	return out, nil
}

// damages / repairs the file from outside (nobody holds it)
func (e *schedEnv) setHeader(ok bool, dmg string) error {
	f, err := os.OpenFile(e.path, os.O_RDWR, 0)
	if err != nil {
		return err
	}
	defer f.Close()
	full := int64(28 + 12*e.nslots)
	if ok {
		// repair whatever is wrong: the whole header and the length
		if _, err := f.WriteAt(e.hdrGood, 0); err != nil {
			return err
		}
		if err := f.Truncate(full); err != nil {
			return err
		}
		// a file abandoned by its creator has no base interval yet: the repair fixes the slot addressing
		// (slot 0 <-> t0) the page groups rely on; the value stays 0 = generation 0
		var s0 [4]byte
		if _, err := f.ReadAt(s0[:], 28); err != nil {
			return err
		}
		if binary.BigEndian.Uint32(s0[:]) == 0 {
			binary.BigEndian.PutUint32(s0[:], uint32(e.t0))
			_, err = f.WriteAt(s0[:], 28)
		}
		return err
	}
	var b [4]byte
	switch dmg {
	case "method":
		binary.BigEndian.PutUint32(b[:], 0xfffffff0) // no such aggregation method
		_, err = f.WriteAt(b[:], 0)
	case "count":
		_, err = f.WriteAt(b[:], 12) // archive count 0
	case "short":
		err = f.Truncate(full - 1) // valid header, data area one byte short (the byte cut off is 0 for every generation)
	default:
		err = fmt.Errorf("unknown damage %q", dmg)
	}
	return err
}

func (e *schedEnv) setup(dir string, init schedState) error {
	nslots, _ := schedGroups(e.npages)
	e.nslots = nslots
	e.now = wt.Timestamp(sessNow)
	e.t0 = int64(sessNow) - int64(nslots) + 1
	cfg := MCfg{Layout: []MArch{{Step: 1, N: int64(nslots)}}, Method: "sum", Xff: [2]int64{0, 1}}
	ring := [][]RSlot{make([]RSlot, nslots)}
	for i := range ring[0] {
		ring[0][i] = RSlot{T: uint32(e.t0 + int64(i)), V: 0}
	}
	e.path = filepath.Join(dir, "f.wsp")
	img := encodeFile(cfg, ring)
	e.hdrGood = append([]byte(nil), img[:28]...)
	e.created = !init.Exists
	if init.Exists {
		if err := os.WriteFile(e.path, img, 0644); err != nil {
			return err
		}
		if !init.HdrOk {
			if err := e.setHeader(false, init.Dmg); err != nil {
				return err
			}
		}
	}
	e.procs = map[string]*schedProc{}
	e.gateMu.Lock()
	e.byLink = map[string]*schedProc{}
	for name := range init.Pc {
		p := &schedProc{name: name, link: filepath.Join(dir, "via-"+name+".wsp"), cmds: make(chan schedCmd),
			arrive: make(chan string, 4), release: make(chan struct{}, 4), openDone: make(chan error, 1)}
		if err := os.Symlink(e.path, p.link); err != nil {
			e.gateMu.Unlock()
			return err
		}
		e.procs[name] = p
		e.byLink[p.link] = p
		go e.procLoop(p)
	}
	e.gateMu.Unlock()
	e.syncBad = false
	return nil
}

// let every goroutine run to completion and close every handle
func (e *schedEnv) teardown() {
	e.gateMu.Lock()
	e.byLink = map[string]*schedProc{} // later hook calls pass through
	e.gateMu.Unlock()
	for pass := 0; pass < 3; pass++ {
		if pass > 0 {
			// a descriptor leaked by the code under test keeps its lock until it is finalized
			runtime.GC()
			time.Sleep(2 * time.Millisecond)
		}
		for _, p := range e.procs {
			if p.db != nil {
				p.db.Close()
				p.db = nil
			}
		}
		for _, p := range e.procs {
			if !p.inOpen {
				continue
			}
			deadline := time.After(time.Duration(200*(pass+1)*(pass+1)) * time.Millisecond)
		drain:
			for {
				select {
				case <-p.arrive:
					p.release <- struct{}{}
				case err := <-p.openDone:
					if err == nil && p.db != nil {
						p.db.Close()
						p.db = nil
					}
					p.inOpen = false
					break drain
				case <-deadline:
					break drain
				default:
					// not yet at a gate: it may be blocked in flock behind a handle closed in this pass
					select {
					case p.release <- struct{}{}:
					default:
					}
					time.Sleep(200 * time.Microsecond)
				}
			}
		}
	}
	for _, p := range e.procs {
		close(p.cmds)
	}
}

// waits until the process reaches the gate `point`: "arrived", Open returned instead: "returned" (its error in p.lastErr),
// or the time is over: "timeout"
func (e *schedEnv) waitArrive(p *schedProc, point string, d time.Duration) string {
	select {
	case got := <-p.arrive:
		if got != point {
			panic(fmt.Sprintf("scheduler: %s reached gate %q, expected %q", p.name, got, point))
		}
		return "arrived"
	case err := <-p.openDone:
		p.inOpen = false
		p.lastErr = err
		return "returned"
	case <-time.After(d):
		return "timeout"
	}
}

type schedAbort struct{ reason string }

func (e *schedEnv) violate(b *schedBehaviour, raw []byte, step int, what, detail string) {
	if len(e.res.Violations) < 40 {
		e.res.Violations = append(e.res.Violations, schedViolation{What: what, Detail: detail, Behaviour: json.RawMessage(raw), Step: step})
	}
}

// nextAcquirer: the process of the first Acquire action after position i (\"\" if none)
func nextAcquirer(b *schedBehaviour, i int) string {
	for j := i + 1; j < len(b.Steps); j++ {
		if b.Steps[j].Act.Name == "Acquire" {
			return b.Steps[j].Act.P
		}
	}
	return ""
}

func (e *schedEnv) anyEarly() bool {
	for _, p := range e.procs {
		if p.early {
			return true
		}
	}
	return false
}

// replays one behaviour; returns false when it had to be cut short
func (e *schedEnv) replay(b *schedBehaviour, raw []byte) bool {
	c13 := e.prop == "C13"
	c05 := e.prop == "C05"
	for i, st := range b.Steps {
		a, post := st.Act, st.Post
		p := e.procs[a.P]
		e.res.Steps++
		e.res.ByAction[a.Name]++
		switch a.Name {
		case "OpenFd", "CreateFd":
			p.inOpen, p.early, p.atLocked = true, false, false
			if a.Name == "CreateFd" {
				e.gateMu.Lock()
				e.byLink[e.path] = p
				e.gateMu.Unlock()
				e.call(p, "create", 0, 0)
			} else {
				e.call(p, "open", 0, 0)
			}
			if r := e.waitArrive(p, "opened", 30*time.Second); r != "arrived" {
				panic(fmt.Sprintf("scheduler: %s did not reach the first gate of Open/Create: %s %v", p.name, r, p.lastErr))
			}
		case "Acquire":
			if !p.early {
				p.release <- struct{}{}
			}
			if !p.atLocked {
				r := e.waitArrive(p, "locked", 500*time.Millisecond)
				lockedFor := 0
				for waited := 0; r == "timeout" && waited < 60; waited++ {
					// nobody in this scheduler holds the file (the specification's lock is free and every session is ours):
					// if the path stays locked for seconds while p does not come through, a descriptor that is no handle keeps
					// the lock. (p itself may hold it for the instant between flock and the gate: hence several seconds.)
					if lockProbe(e.path) == "locked" {
						lockedFor++
					} else {
						lockedFor = 0
					}
					r = e.waitArrive(p, "locked", 500*time.Millisecond)
					if r == "timeout" && lockedFor >= 6 {
						break
					}
				}
				switch r {
				case "timeout":
					if c13 {
						e.violate(b, raw, i, "an Open stays blocked although no handle holds the file (the lock outlived its handle)",
							fmt.Sprintf("process %s does not get the lock and non-blocking lock attempts keep failing although every handle is closed", p.name))
					}
					return false
				case "returned":
					// Open gave up before taking the lock
					if c13 && st.Post.HdrOk && p.lastErr != nil {
						e.violate(b, raw, i, "Open of a valid file fails", fmt.Sprintf("process %s: %v", p.name, p.lastErr))
					} else {
						e.res.Skipped++ // the same outcome the specification reaches through Acquire and ReadHeader
					}
					if p.lastErr == nil && p.db != nil {
						p.db.Close()
						p.db = nil
					}
					return false
				}
			}
			p.early, p.atLocked = false, true
		case "ReadHeader", "InitFile":
			p.release <- struct{}{}
			var err error
			select {
			case err = <-p.openDone:
			case <-time.After(30 * time.Second):
				panic("scheduler: Open of " + p.name + " did not return after the lock was taken")
			}
			p.inOpen, p.atLocked = false, false
			wantOk := post.Pc[a.P] == "open"
			if wantOk && err != nil {
				if c13 {
					e.violate(b, raw, i, "Open of a valid file, serialised behind the previous handle, fails", fmt.Sprintf("process %s: %v", p.name, err))
				}
				return false
			}
			if !wantOk && err == nil {
				// accepting an invalid header is C07/C15's matter; the rest of the behaviour does not apply
				p.db.Close()
				p.db = nil
				e.res.Skipped++
				return false
			}
			p.val = -1
			if a.Name == "InitFile" {
				e.gateMu.Lock()
				delete(e.byLink, e.path)
				e.gateMu.Unlock()
				if r := e.call(p, "base", 0, 0); r.err != nil {
					panic(fmt.Sprintf("scheduler: first write to the created file failed: %v", r.err))
				}
			}
		case "ReadPage", "Observe":
			r := e.call(p, "fetch", a.Pg, 0)
			want := post.Cache[a.P][fmt.Sprint(a.Pg)]
			e.res.Compared++
			if c13 && !e.syncBad && (r.err != nil || len(r.vals) != 1 || r.vals[0] != want) {
				e.violate(b, raw, i, "a handle does not observe the file as of a session boundary",
					fmt.Sprintf("process %s, page %d: read generations %v (err %v), the specification says %d", p.name, a.Pg, r.vals, r.err, want))
				return false
			}
		case "WLoad":
			r := e.call(p, "fetch", 0, 0)
			want := post.Val[a.P]
			if r.err != nil || len(r.vals) != 1 {
				if c13 && !e.syncBad {
					e.violate(b, raw, i, "a writer does not observe the file as of a session boundary",
						fmt.Sprintf("process %s: read generations %v (err %v) on page 0, the specification says %d", p.name, r.vals, r.err, want-1))
				}
				return false
			}
			p.val = r.vals[0] + 1
			e.res.Compared++
			if c13 && !e.syncBad && p.val != want {
				e.violate(b, raw, i, "lost update: a writer serialised behind a synced session does not see its result",
					fmt.Sprintf("process %s loaded generation %d, the specification says %d", p.name, r.vals[0], want-1))
				return false
			}
			if p.val != want {
				return false // (C05 mode) the rest of the behaviour cannot be followed
			}
		case "WStamp":
			if r := e.call(p, "stamp", a.Pg, p.val); r.err != nil {
				panic(fmt.Sprintf("scheduler: update failed: %v", r.err))
			}
		case "SyncStart", "FlushPage":
			// the real Sync is one library call: executed at SyncDone
		case "SyncDone":
			if r := e.call(p, "sync", 0, 0); r.err != nil {
				panic(fmt.Sprintf("scheduler: Sync failed: %v", r.err))
			}
		case "Close", "Drop":
			if c13 {
				// last moment of this handle: nobody waiting in flock may have come through
				if e.checkBlocked(b, raw, i, a.P) {
					return false
				}
			}
			e.call(p, "close", 0, 0)
		case "CloseAgain":
			e.call(p, "close-again", 0, 0)
		case "FlipHeader":
			if err := e.setHeader(post.HdrOk, post.Dmg); err != nil {
				panic(err)
			}
		default:
			panic("scheduler: unknown action " + a.Name)
		}

		// ---- projection of the real state after the step -----------------------------------------
		midSync := false
		for _, st := range post.Pc {
			if st == "syncing" {
				midSync = true // the real Sync is one call (made at SyncDone): the pages in between are not observable
			}
		}
		if !midSync {
			dv, err := e.diskView()
			if err != nil {
				panic(err)
			}
			for pg := 0; pg < e.npages; pg++ {
				want := fmt.Sprint([]int64{post.Disk[fmt.Sprint(pg)]})
				if dv[pg] != want {
					if c05 {
						e.res.Compared++
						e.violate(b, raw, i, "the file's bytes are not what the specification says after "+a.Name+" (they change only during Sync, and Sync writes every dirty page)",
							fmt.Sprintf("page %d holds generations %s, the specification says %s", pg, dv[pg], want))
						return false
					}
					e.syncBad = true
				}
			}
			if c05 {
				e.res.Compared++
			}
		}
		if c13 {
			// negative test: somebody the specification keeps waiting is let into flock and must stay there
			for name, q := range e.procs {
				if post.Pc[name] == "locking" && !q.early && post.Lock != "free" && post.Lock != name {
					na := nextAcquirer(b, i)
					if na == name || na == "" {
						q.early = true
						q.release <- struct{}{}
						e.res.Negative++
						time.Sleep(300 * time.Microsecond)
						if (b.ID+i)%12 == 0 {
							// now and then the holder keeps the file for a while: waiting means waiting, not polling for a moment
							time.Sleep(250 * time.Millisecond)
						}
					}
				}
			}
			if e.checkBlocked(b, raw, i, post.Lock) {
				return false
			}
			if !(post.Lock == "free" && e.anyEarly()) {
				got := lockProbe(e.path)
				want := "locked"
				if post.Lock == "free" {
					want = "free"
				}
				e.res.Compared++
				if got != want {
					what := "the lock does not live exactly as long as a handle"
					if want == "locked" {
						what = "a handle holds the file without holding the lock"
					}
					e.violate(b, raw, i, what, fmt.Sprintf("after %s(%s) a non-blocking lock attempt finds the file %s, the specification says %s (holder %s)", a.Name, a.P, got, want, post.Lock))
					return false
				}
			}
		}
	}
	return true
}

// a process released early into flock must not have come through while the specification's lock is held by another handle
func (e *schedEnv) checkBlocked(b *schedBehaviour, raw []byte, i int, holder string) bool {
	for name, q := range e.procs {
		if !q.early || q.atLocked {
			continue
		}
		select {
		case got := <-q.arrive:
			q.atLocked = true
			if holder != "free" && holder != name {
				e.violate(b, raw, i, "two handles hold the file at once: a second Open did not wait for the first handle to be closed",
					fmt.Sprintf("process %s passed flock (gate %q) while %s holds the file", name, got, holder))
				return true
			}
		case err := <-q.openDone:
			q.inOpen, q.early = false, false
			if err == nil && q.db != nil {
				q.db.Close()
				q.db = nil
			}
			if holder != "free" && holder != name {
				e.violate(b, raw, i, "a second Open did not wait for the first handle to be closed",
					fmt.Sprintf("Open of process %s returned (%v) while %s holds the file", name, err, holder))
			} else {
				e.res.Skipped++
			}
			return true
		default:
		}
	}
	return false
}

// sched <prop> <npages> <behaviours.ndjson> <result.json>
func runSched(args []string) int {
	prop := args[0]
	var npages int
	fmt.Sscan(args[1], &npages)
	f, err := os.Open(args[2])
	if err != nil {
		fmt.Fprintln(os.Stderr, err)
		return 2
	}
	defer f.Close()
	res := &schedResult{ByAction: map[string]int{}, Violations: []schedViolation{}, Samples: []string{}}
	root := scratchDir()
	defer os.RemoveAll(root)
	env := &schedEnv{prop: prop, npages: npages, res: res}
	wt.VerifYield = env.hook
	sc := bufio.NewScanner(f)
	sc.Buffer(make([]byte, 1<<20), 1<<28)
	n := 0
	for sc.Scan() {
		raw := append([]byte(nil), sc.Bytes()...)
		var b schedBehaviour
		if err := json.Unmarshal(raw, &b); err != nil {
			fmt.Fprintln(os.Stderr, "bad behaviour line:", err)
			return 2
		}
		dir := filepath.Join(root, fmt.Sprintf("b%d", n))
		os.MkdirAll(dir, 0755)
		if err := env.setup(dir, b.Init); err != nil {
			fmt.Fprintln(os.Stderr, err)
			return 2
		}
		env.replay(&b, raw)
		env.teardown()
		os.RemoveAll(dir)
		res.Behaviours++
		if n < 2 {
			res.Samples = append(res.Samples, fmt.Sprintf("behaviour %d: %d steps, first actions %v", b.ID, len(b.Steps), actNames(b.Steps, 8)))
		}
		n++
	}
	out, _ := json.Marshal(res)
	if err := os.WriteFile(args[3], out, 0644); err != nil {
		fmt.Fprintln(os.Stderr, err)
		return 2
	}
	return 0
}

func actNames(s []schedStep, k int) []string {
	out := []string{}
	for i := 0; i < len(s) && i < k; i++ {
		out = append(out, s[i].Act.Name+"("+s[i].Act.P+")")
	}
	return out
}

var _ = syscall.LOCK_EX
