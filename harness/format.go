package main

import (
	"encoding/binary"
	"fmt"
	"math"
)

// Independent encoder/decoder of the classic Whisper file format, written from
// WhisperFormat!Encode of the specification (NOT using whispertool's codec):
//   4 meta words: aggregation type, max retention, xFilesFactor (float32), archive count
//   per archive 3 words: offset, secondsPerPoint, points
//   per slot: uint32 interval + float64 value, archives contiguous in declaration order
// All big-endian.

var methodNum = map[string]uint32{"average": 1, "sum": 2, "last": 3, "max": 4, "min": 5, "first": 6}
var methodName = map[uint32]string{1: "average", 2: "sum", 3: "last", 4: "max", 5: "min", 6: "first"}

type RHeader struct {
	Method  uint32
	MaxRet  uint32
	XffBits uint32
	Archs   []RArch
}

type RArch struct {
	Offset uint32
	Step   uint32
	N      uint32
}

func xffFloat(x [2]int64) float32 {
	if x[1] == 0 {
		return 0
	}
	return float32(x[0]) / float32(x[1])
}

func encodeFile(cfg MCfg, ring [][]RSlot) []byte {
	k := len(cfg.Layout)
	total := 16 + 12*k
	for _, a := range cfg.Layout {
		total += int(a.N) * 12
	}
	buf := make([]byte, total)
	last := cfg.Layout[k-1]
	binary.BigEndian.PutUint32(buf[0:], methodNum[cfg.Method])
	binary.BigEndian.PutUint32(buf[4:], uint32(last.Step*last.N))
	binary.BigEndian.PutUint32(buf[8:], math.Float32bits(xffFloat(cfg.Xff)))
	binary.BigEndian.PutUint32(buf[12:], uint32(k))
	off := 16 + 12*k
	for i, a := range cfg.Layout {
		binary.BigEndian.PutUint32(buf[16+12*i:], uint32(off))
		binary.BigEndian.PutUint32(buf[20+12*i:], uint32(a.Step))
		binary.BigEndian.PutUint32(buf[24+12*i:], uint32(a.N))
		for j := 0; j < int(a.N); j++ {
			s := ring[i][j]
			binary.BigEndian.PutUint32(buf[off+12*j:], s.T)
			binary.BigEndian.PutUint64(buf[off+12*j+4:], math.Float64bits(s.V))
		}
		off += int(a.N) * 12
	}
	return buf
}

// decodeFile parses file bytes independently; it enforces the structural
// facts C06 states (contiguous offsets, exact length).
func decodeFile(buf []byte) (*RHeader, [][]RSlot, error) {
	if len(buf) < 16 {
		return nil, nil, fmt.Errorf("short file: %d bytes", len(buf))
	}
	h := &RHeader{
		Method:  binary.BigEndian.Uint32(buf[0:]),
		MaxRet:  binary.BigEndian.Uint32(buf[4:]),
		XffBits: binary.BigEndian.Uint32(buf[8:]),
	}
	k := int(binary.BigEndian.Uint32(buf[12:]))
	if k <= 0 || k > 64 || len(buf) < 16+12*k {
		return nil, nil, fmt.Errorf("bad archive count %d for %d bytes", k, len(buf))
	}
	off := uint32(16 + 12*k)
	rings := make([][]RSlot, k)
	for i := 0; i < k; i++ {
		a := RArch{
			Offset: binary.BigEndian.Uint32(buf[16+12*i:]),
			Step:   binary.BigEndian.Uint32(buf[20+12*i:]),
			N:      binary.BigEndian.Uint32(buf[24+12*i:]),
		}
		if a.Offset != off {
			return nil, nil, fmt.Errorf("archive %d: offset %d, contiguous layout requires %d", i, a.Offset, off)
		}
		h.Archs = append(h.Archs, a)
		if uint64(off)+uint64(a.N)*12 > uint64(len(buf)) {
			return nil, nil, fmt.Errorf("archive %d exceeds the file (%d bytes)", i, len(buf))
		}
		rings[i] = make([]RSlot, a.N)
		for j := uint32(0); j < a.N; j++ {
			p := off + 12*j
			rings[i][j] = RSlot{T: binary.BigEndian.Uint32(buf[p:]), V: math.Float64frombits(binary.BigEndian.Uint64(buf[p+4:]))}
		}
		off += a.N * 12
	}
	if int(off) != len(buf) {
		return nil, nil, fmt.Errorf("file length %d, header + 12 x points = %d", len(buf), off)
	}
	return h, rings, nil
}

func headerMatches(h *RHeader, cfg MCfg) error {
	if h.Method != methodNum[cfg.Method] {
		return fmt.Errorf("method %d want %d", h.Method, methodNum[cfg.Method])
	}
	if h.XffBits != math.Float32bits(xffFloat(cfg.Xff)) {
		return fmt.Errorf("xff bits %x want %x", h.XffBits, math.Float32bits(xffFloat(cfg.Xff)))
	}
	if len(h.Archs) != len(cfg.Layout) {
		return fmt.Errorf("archive count %d want %d", len(h.Archs), len(cfg.Layout))
	}
	for i, a := range cfg.Layout {
		if int64(h.Archs[i].Step) != a.Step || int64(h.Archs[i].N) != a.N {
			return fmt.Errorf("archive %d: %d:%d want %d:%d", i, h.Archs[i].Step, h.Archs[i].N, a.Step, a.N)
		}
	}
	last := cfg.Layout[len(cfg.Layout)-1]
	if int64(h.MaxRet) != last.Step*last.N {
		return fmt.Errorf("maxRetention %d want %d", h.MaxRet, last.Step*last.N)
	}
	return nil
}
